#!/venv/bin/python
'''Build /verif/regressions/<fix>.json: for every "fix:" commit in /repo, run the check of the property it belongs to against the
PARENT of that commit (sources exported to /dev/shm, never touching /repo) and keep one shrunk replay file of the expected
violation class.  `vsim regress` then replays them all against the current tree: none may reproduce.'''
import os, sys, json, subprocess, shutil, glob

VERIF = os.path.dirname(os.path.abspath(__file__))
PY = '/venv/bin/python'
FIXES = [  # (commit, property, expected class prefix, VSIM_COUNT)
    ('73fa63d', 'C14', 'E-unexpected-exception', 600),
    ('1290bae', 'C14', 'E-unexpected-exception', 600),
    ('bede8f3', 'C14', 'R-constraint-violated', 1200),
    ('a38bc4d', 'C14', 'R-shape', 2500),
    ('a3d5258', 'C14', 'R-time-not-advanced', 2500),
    ('5c52c61', 'C14', 'R-tolerance-not-met', 2500),
    ('ddc744d', 'C14', 'E-unexpected-exception', 1500),
    ('6dc01ac', 'C14', 'E-unexpected-exception', 1500),
    ('dc8d998', 'C14', 'R-machine-precision', 2500),
    ('7c6002d', 'C03', 'V-first-run-view-of-unfrozen-constant', 1200),
    ('a1b0222', 'C18', 'J1-unexpected-exception', 200),
    ('fe95524', 'C03', 'V-result-depends-on-history', 2400),
    ('979adeb', 'C14', 'R-', 3200),
    ('901b2bf', 'C14', 'R-tolerance-not-met', 3200),
    ('7049b8a', 'C18', 'J1-unexpected-exception', 360),
    ('4ef6b58', 'C14', 'R-non-finite-residual-accepted', 3200),
    ('6fc77f8', 'C14', 'R-non-finite-residual-accepted', 3200),
    ('2452f56', 'C14', 'R-tolerance-not-met', 3200),
    ('297b96c', 'C14', 'R-tolerance-not-met', 3200),
]


def main():
    only = sys.argv[1:]
    os.makedirs(os.path.join(VERIF, 'regressions'), exist_ok=True)
    for commit, prop, cls, count in FIXES:
        if only and commit not in only:
            continue
        root = f'/dev/shm/vsim-regr-{commit}'
        shutil.rmtree(root, ignore_errors=True)
        os.makedirs(root)
        subprocess.run(f'git -C /repo archive {commit}^ src | tar -x -C {root}', shell=True, check=True)
        env = dict(os.environ, VSIM_NUTILS_SRC=f'{root}/src', VSIM_EVIDENCE_DIR=f'{root}/ev', VSIM_REPLAY_DIR=f'{root}/rp', VSIM_COUNT=str(count), VSIM_REPLAYS_PER_CLASS='6', PYTHONDONTWRITEBYTECODE='1')
        p = subprocess.run([PY, f'{VERIF}/bin/vsim', 'check', prop, '--tier', 'quick'], capture_output=True, text=True, env=env)
        kept = None
        for f in sorted(glob.glob(f'{root}/rp/{prop}-*.json')):
            rec = json.load(open(f))
            if rec['expect']['vclass'].startswith(cls) and rec.get('fresh_replay_exit') == 1:
                # the replay must be about THIS defect: it must not reproduce on the fixed commit itself
                froot = f'{root}/fixed'
                shutil.rmtree(froot, ignore_errors=True)
                os.makedirs(froot)
                subprocess.run(f'git -C /repo archive {commit} src | tar -x -C {froot}', shell=True, check=True)
                q = subprocess.run([PY, f'{VERIF}/bin/vsim', 'replay', f, '--quiet'], capture_output=True, text=True, env=dict(os.environ, VSIM_NUTILS_SRC=f'{froot}/src'))
                if q.returncode == 0 and 'NOT-REPRODUCED' in q.stdout:
                    rec['regression_for'] = dict(fix_commit=commit, property=prop, found_on=f'{commit}^', detail=rec.get('detail'))
                    rec.pop('original_case', None)
                    kept = os.path.join(VERIF, 'regressions', f'{prop}-{commit}.json')
                    json.dump(rec, open(kept, 'w'), indent=1)
                    break
        print(commit, prop, cls, 'kept' if kept else 'NOT FOUND', '|', p.stdout.splitlines()[-1][:160] if p.stdout else p.stderr[-200:])
        sys.stdout.flush()
        shutil.rmtree(root, ignore_errors=True)


if __name__ == '__main__':
    main()
