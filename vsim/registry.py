'''Single source of truth for MANIFEST.json: claimed checks and not-applicable list.'''

PY = '/venv/bin/python'

NOT_APPLICABLE = {
    'C01': 'simplification is a pure rewrite of an immutable expression DAG; termination and value preservation depend on the input term only - no schedule, clock, fault or history for a simulator to control (DESIGN 9)',
    'C02': 'code generation is a pure function of (expression, arguments, flags); its schedule-dependent configuration (maxprocs>1) is decided under C16 and its history-dependent one (constant caching across calls) under C03 (DESIGN 9)',
    'C04': 'symbolic differentiation is a pure function of the expression; nothing to schedule or fault (DESIGN 9)',
    'C05': 'sparse extraction is a pure function of the expression and arguments (DESIGN 9)',
    'C06': 'static metadata versus evaluation: a static analysis compared with a pure evaluation, no nondeterminism involved (DESIGN 9)',
    'C07': 'NumPy semantics of function arrays: pure point-wise function of inputs (DESIGN 9)',
    'C08': 'differential-geometric identities: pure functions of geometry and topology (DESIGN 9)',
    'C09': 'quadrature exactness: pure; the parallel integration path is decided under C16 (DESIGN 9)',
    'C10': 'topology operations are compositions of pure functions on immutable values; nothing mutable survives between operations (DESIGN 9)',
    'C11': 'element lookup and coordinate maps are pure; the forked locate() is decided under C16 and the buffer-keyed cache behind transform application under C17 (DESIGN 9)',
    'C12': 'bases are pure functions of topology and parameters (DESIGN 9)',
    'C13': 'argument manipulation commutes with evaluation: pure algebra on immutable expressions (DESIGN 9)',
    'C15': 'matrix objects have pure value semantics; their only hidden state (sub-matrix and preconditioner memo) is exercised by the solve histories of C14 (DESIGN 9)',
    'C19': 'expression-string parsing is a pure parser; single-edit corruption of strings is input mutation, not a fault in a running system (DESIGN 9)',
    'C20': 'physical dimensions: pure algebra on immutable quantities (DESIGN 9)',
}

# property id -> dict(engine, level, text, note, technique, design_ref); filled in as checks are built
CHECKS = {
    'C03': dict(
        engine='opsim', level='exploration', design_ref='DESIGN.md 3',
        technique='deterministic simulation with fault injection: seeded call/scribble/mutate/failed-call/injected-MemoryError/parallel-call histories on one long-lived compiled function, System or Basis, checked against pristine snapshots of an independent compile',
        text='Seeded search over call histories of one long-lived compiled function (and of solver.System and function.Basis objects): calls with re-used, mutated-in-place, fresh, read-only, non-contiguous and integer-typed argument sets, poison written over every writable array handed out earlier, malformed calls that must raise, MemoryError injected at the n-th line of the running generated script (also in the middle of the first run), the same call executed in parallel under the process simulator (optionally itself hit by an injected kill / fork failure / allocation failure, also as the first run); values owned by library objects (transform items) handed out through views; histories inside long-lived compiled functions (Topology.locate: points located together vs each alone; trim: whole topology vs per element). Every call is compared with the snapshot taken in pristine state from a separate compile without constant caching (cross-checked against the unsimplified, unoptimised evaluation), and argument arrays are compared byte for byte before and after. Sampled: evidence, not proof.',
        note='Trusts NumPy; arrays that alias an argument array are not scribbled; exported matrix storage (Matrix.export) is not treated as a result of the compiled function; programs come from fixed template families, not an open-ended expression fuzzer.'),
    'C14': dict(
        engine='opsim', level='exploration', design_ref='DESIGN.md 4',
        technique='deterministic simulation with fault injection: seeded solve histories on one matrix / System through a fault-injecting numerical back end at the matrix.backend() plug-in seam, every returned vector certified by an independent dense NumPy recomputation',
        text='Seeded search over histories of solves on one matrix object (changing constraints boolean/NaN-float/row, right-hand sides incl. several at once, lhs0, tolerances, solvers, preconditioners) and on one solver.System (all methods, step sequences with bisection retry, solve_constraints, legacy wrappers) while a fault injector behind the real NumpyMatrix makes the back end return inexact, non-finite, huge or stagnating results or raise. Every returned vector is certified with plain NumPy (constraints bit-exact, finiteness, residual within the requested tolerance plus rounding slack), every exception must be a matrix or solver error. Topology.project histories chain the returned constraint vector into the next call (and exact_boundaries) and are certified stage by stage with dense free normal equations. Further fault kinds: allocation failure inside a sub-matrix extraction (with retry), matrices with a non-finite coefficient, complex parameter dependent systems. Fifteen genuine defects found this way were repaired in /repo (fix: commits, listed in known_findings.json); one more is recorded as a known finding.',
        note='Trusts NumPy/LAPACK for the dense oracle; with atol=rtol=0 only finiteness/constraints (and, for an honest back end and non-singular matrices, a small backward error) are checked; only the numpy back end exists in this sandbox; truncated Krylov with a diagonal preconditioner is not generated (converges too slowly to run, not a violation); known finding C14-arnoldi-without-tolerance-returns-stagnated-iterate (narrow class, see known_findings.json).'),
    'C16': dict(
        engine='procsim', level='exploration', design_ref='DESIGN.md 5',
        technique='deterministic simulation with fault injection: seeded baton scheduler over real forked worker processes, kill/raise/fork/alloc/lost-exit-status faults, happens-before race detection, serial-equivalence oracle',
        text='Seeded search over schedules and fault sequences of the real parallel code (nutils.parallel, generated scripts, Topology._locate) running in real forked processes whose interleaving is decided by the simulator at lock/counter/line granularity. Checks exactly-once iteration claims, mutual exclusion of shared writes (vector-clock happens-before over the recorded history), equality with the serial run, raise-instead-of-partial-result after any injected fault and bounded liveness. Sampled: a clean batch is evidence, not proof.',
        note='Trusts kernel fork/mmap/pipe/SIGKILL semantics and the fidelity of the lock stub to a POSIX semaphore; no CPU-level or bytecode-level pre-emption (races are detected by happens-before, not by manifestation); one known finding (kill while holding a lock deadlocks) is listed in known_findings.json.'),
    'C17': dict(
        engine='opsim', level='exploration', design_ref='DESIGN.md 7',
        technique='deterministic simulation with fault injection: seeded build/drop/gc/allocator-churn/pickle histories over pools of near-miss values with invariants after every step, plus child interpreters under other PYTHONHASHSEED',
        text='Decides the history- and configuration-dependent clauses: a value keeps its nutils hash however, whenever and wherever it is built (construction routes, pickle round trip, other interpreter and hash seed, whatever else is alive or has been collected), structurally equal interned values are one object while either lives, different values are never one object, and the buffer-keyed lru_cache stays correct when buffers are freed and their addresses re-used. Injectivity is evaluated on every pair a case holds (pools contain generated near misses) but no adversarial pair search is claimed. Known finding C17-python-equal-values-conflated (0.0 / -0.0 alias in intern tables and in frozendict.__eq__).',
        note='Trusts CPython GC/weakref semantics and SHA-1; mixed numeric argument types that compare equal (1/True/1.0) are outside the listed routes and not generated; topologies themselves are not nutils-hashable on this commit and enter through their sequences, samples and integrals.'),
    'C18': dict(
        engine='procsim', level='fault_enumeration', design_ref='DESIGN.md 6',
        technique='deterministic simulation with fault injection: seeded epochs of real forked caller processes under the baton scheduler on an instrumented file layer (torn writes, kills at file operations, ENOSPC/EIO, pre-existing partial entries), plus complete enumeration of kill offsets within recorded entry writes',
        text='History mode: 1-4 epochs of 1-3 real caller processes (fresh per epoch: only the cache directory survives) run memoised calls and partial iterations of resumable recursions through the real nutils.cache code; the simulator decides the interleaving at every file operation / flock / function entry and injects kills in the middle of a write, kills at chosen operations, raising functions, abandoned iterations, ENOSPC/EIO and truncated/empty/old-format entries. Workloads include array arguments in near-collision variants (memory order, transposes, element width, strides), two iterators over one recursion alive in one consumer, iterators left suspended, recursions of length 0 to 3. The memoised System.solve workload takes every solution method as argument; crash-point sweeps kill a caller at every operation boundary. Oracles: value and replayed log equal the uncached call, resume() starts from the right history, one process at a time inside the wrapped function per entry, progress. Enumeration mode: for entries recorded from a fault-free run EVERY byte offset at which the write can be cut is reconstructed and the call repeated twice (complete over that dimension for entries up to 4000 bytes); histories, schedules and payloads remain sampled.',
        note='"killed" = SIGKILL of the process (completed writes survive); power loss is outside the statement; flock stub has kernel semantics (released on close and death; LOCK_NB supported); two known findings narrow classes (see known_findings.json); wrapped functions are deterministic, entries byte-stable across processes.'),
}
PLANNED = ('C03', 'C14', 'C16', 'C17', 'C18')


def _cmd(pid, tier):
    return f'{PY} /verif/bin/vsim check {pid} --tier {tier}'


def manifest():
    checks = []
    for pid in sorted(CHECKS):
        c = CHECKS[pid]
        checks.append(dict(
            property_id=pid,
            quick_cmd=_cmd(pid, 'quick'),
            thorough_cmd=_cmd(pid, 'thorough'),
            evidence_file=f'/verif/evidence/{pid}.json',
            replay_cmd_template=f'{PY} /verif/bin/vsim replay {{path}}',
            engine=c['engine'],
            level_claimed=dict(category=c['level'], text=c['text'], design_ref=c['design_ref']),
            level_note=c['note'],
            technique=c['technique'],
        ))
    na = [dict(property_id=k, reason=v) for k, v in sorted(NOT_APPLICABLE.items()) if k not in CHECKS]
    for pid in PLANNED:
        if pid not in CHECKS:
            na.append(dict(property_id=pid, reason='applicable (DESIGN 3-7) but not claimed yet: the simulation check for it is still under construction'))
    na.sort(key=lambda d: d['property_id'])
    return dict(
        version=1,
        setup_cmd=f'{PY} /verif/bin/vsim setup',
        hooks=dict(
            guard='NUTILS_VERIF_SIM',
            enable='no source hooks: every seam is a module attribute (nutils.parallel.os/multiprocessing/mmap, nutils.evaluable.multiprocessing, nutils.cache.fcntl/pathlib, and nutils.cache.time if a change introduces it) or a plug-in interface (matrix.backend) replaced by the harness at run time; checks import nutils from /repo/src (VSIM_NUTILS_SRC overrides)',
            baseline_off_cmd='cd /repo && /venv/bin/python -m pytest -ra -q -p no:cacheprovider --timeout=900 --continue-on-collection-errors',
            source_commits=[],
            add_only=True,
        ),
        engines=[
            dict(name='procsim', path='/verif/vsim/procsim.py', serves_properties=[p for p in ('C16', 'C18', 'C03') if p in CHECKS],
                 kind_free_text='deterministic baton-passing scheduler over real forked processes (shared-mmap state, one pipe per process), seeded interleavings and faults (kill, raise, fork/alloc failure, torn file writes), happens-before race detection on shared buffers'),
            dict(name='opsim', path='/verif/vsim/props/', serves_properties=[p for p in ('C03', 'C14', 'C17') if p in CHECKS],
                 kind_free_text='seeded operation-and-fault sequences executed against the real object and a small reference model, per-step oracles, own ddmin shrinker, replay from the case record; the operation loops live in props/c03.py, props/c14.py, props/c17.py on top of the shared batch/isolate/shrink/check modules'),
        ],
        checks=checks,
        not_applicable=na,
        notes='Technique family: deterministic simulation with fault injection. One integer (VERIF_SEED) decides every case; replay files are case records re-executed in a fresh interpreter. See DESIGN.md.',
    )
