'''procsim - a deterministic scheduler over REAL forked processes.

Processes are real (os.fork, copy-on-write, anonymous shared mmap, waitpid,
SIGKILL); what is simulated is *who runs*.  All scheduler state lives in one
anonymous shared mmap; every process slot has a pipe created before the run.
Exactly one process holds the baton, the others are parked in a blocking read
on their pipe.  At every yield point the running process logs an event, asks
the deterministic strategy who runs next and, if that is someone else, wakes
them and parks.  See DESIGN.md 1.1.
'''

import os, sys, mmap as _real_mmap, signal, struct, hashlib, select, errno, linecache
import multiprocessing as _real_mp
import numpy

NS = 64        # process slots
NL = 512       # lock table
NR = 256       # raw values
NK = 48        # event kinds
NFAULT = 16
SHADOW_ARENA = 1 << 18

# header fields
(H_STEP, H_NEV, H_CUR, H_NSLOT, H_NLOCK, H_NRAW, H_OVER, H_TAPEPOS, H_NDEC, H_DL_LOCK, H_DL_OWNER,
 H_SHADOW, H_NBUF, H_MAXCONC, H_EVOVER, H_NFILEID, H_WIDTH, H_VCLOCK) = range(18)

# process status
UNUSED, RUNNABLE, B_LOCK, B_WAIT, EXITED, KILLED = range(6)

# event kinds
K = dict(
    ANY=0, FORK=1, START=2, EXIT=3, WAIT=4, WAITOK=5, KILLSIG=6, ACQ=7, ACQOK=8, REL=9, RGET=10, RSET=11,
    LINE=12, WRITE=13, F_KILL=14, F_RAISE=15, NEXTRET=16, MARK=17, FOPEN=18, FREAD=19, FWRITE=20, FSEEK=21,
    FCLOSE=22, FLOCK=23, FLOCKOK=24, FUNLOCK=25, ENTER=26, LEAVE=27, F_FORKFAIL=28, F_ALLOCFAIL=29, F_IO=30,
    F_CRASHW=31, FTOUCH=32, FMKDIR=33, DEADLOCK=34, LIVELOCK=35, ALLOC=36, F_BOMB=37, CALLDONE=38, F_ECHILD=39, SLEEP=40,
)
KNAME = {v: k for k, v in K.items()}
globals().update({'K_' + k: v for k, v in K.items()})

OVER_DEADLOCK, OVER_LIVELOCK, OVER_DONE = 1, 2, 3


class SimDeadlock(BaseException):
    pass


class SimLivelock(BaseException):
    pass


class InjectedFault(MemoryError):
    '''Raised by a RAISE fault ("failing allocation") inside traced code.'''


_CURRENT = None  # the active Sim in this process (inherited by forked children)


def current():
    return _CURRENT


class Sim:

    def __init__(self, sched, faults=(), granularity='sync', step_cap=None, maxev=None, trace_codes=()):
        self.sched = dict(sched)
        self.kind = self.sched.get('kind', 'tape')
        self.tape = list(self.sched.get('tape', ()))
        self.faults = [dict(f) for f in faults][:NFAULT]
        self.granularity = granularity
        self.step_cap = step_cap or (20000 if granularity == 'sync' else 60000)
        self.maxev = maxev or (self.step_cap * 2 + 2000)
        self.trace_codes = tuple(trace_codes)
        self.me = 0
        self.active = False
        self.postmortem = False
        self.bufs = []        # (id, view(uint8), shadow(uint8))
        self.my_locks = []    # locks held by this process (ids)
        self.my_flocks = []   # simulated flock()s held by this process: the kernel releases these when the process dies
        self.fileids = {}
        sizes = dict(fkeys=(NL // 2) * 8, hdr=32 * 8, status=NS * 4, blocked=NS * 4, exitcode=NS * 4, pids=NS * 8, prio=NS * 4,
                     ycount=NS * NK * 4, lock_owner=NL * 4, raw=NR * 8, fired=NFAULT * 4,
                     events=self.maxev * 5 * 4, shadow=SHADOW_ARENA, probes=64 * 8)
        total = sum((s + 63) // 64 * 64 for s in sizes.values())
        self.mm = _real_mmap.mmap(-1, total)
        off = 0

        def arr(name, dtype, shape):
            nonlocal off
            n = int(numpy.prod(shape)) * numpy.dtype(dtype).itemsize
            a = numpy.frombuffer(self.mm, dtype=dtype, count=int(numpy.prod(shape)), offset=off).reshape(shape)
            off += (sizes[name] + 63) // 64 * 64
            assert n <= sizes[name]
            return a
        self.fkeys = arr('fkeys', numpy.int64, (NL // 2,))
        self.hdr = arr('hdr', numpy.int64, (32,))
        self.status = arr('status', numpy.int32, (NS,))
        self.blocked = arr('blocked', numpy.int32, (NS,))
        self.exitcode = arr('exitcode', numpy.int32, (NS,))
        self.pids = arr('pids', numpy.int64, (NS,))
        self.prio = arr('prio', numpy.int32, (NS,))
        self.ycount = arr('ycount', numpy.int32, (NS, NK))
        self.lock_owner = arr('lock_owner', numpy.int32, (NL,))
        self.raw = arr('raw', numpy.int64, (NR,))
        self.fired = arr('fired', numpy.int32, (NFAULT,))
        self.events = arr('events', numpy.int32, (self.maxev, 5))
        self.shadow = arr('shadow', numpy.uint8, (SHADOW_ARENA,))
        self.probes = arr('probes', numpy.int64, (64,))
        self.lock_owner[:] = -1
        self.status[0] = RUNNABLE
        self.pids[0] = os.getpid()
        self.hdr[H_NSLOT] = 1
        self.hdr[H_DL_LOCK] = -1
        self.hdr[H_DL_OWNER] = -1
        self.pipes = [os.pipe() for _ in range(NS)]
        for r, w in self.pipes:
            os.set_inheritable(r, True)
            os.set_inheritable(w, True)
        prio = self.sched.get('prio')
        if prio:
            for i, p in enumerate(prio[:NS]):
                self.prio[i] = p
        self.change_points = {int(k): int(v) for k, v in self.sched.get('change', [])}
        self.victim = int(self.sched.get('victim', -1))
        self._fault_by_proc = {}
        for i, f in enumerate(self.faults):
            self._fault_by_proc.setdefault(int(f['proc']), []).append((i, f))

    # ---------------------------------------------------------------- lifecycle

    def __enter__(self):
        global _CURRENT
        assert _CURRENT is None
        _CURRENT = self
        self.active = True
        self._old_trace = sys.gettrace()
        sys.settrace(self._gtrace)
        return self

    def __exit__(self, *exc):
        global _CURRENT
        sys.settrace(self._old_trace)
        self.active = False
        _CURRENT = None
        if self.me == 0:
            self.hdr[H_OVER] = self.hdr[H_OVER] or OVER_DONE
            self.reap()
        return False

    def reap(self):
        '''Root only: make sure no simulated process survives the run.'''
        n = int(self.hdr[H_NSLOT])
        for s in range(1, n):
            pid = int(self.pids[s])
            if pid <= 0:
                continue
            try:
                os.kill(pid, signal.SIGKILL)
            except ProcessLookupError:
                pass
        for s in range(1, n):
            pid = int(self.pids[s])
            if pid <= 0:
                continue
            try:
                os.waitpid(pid, 0)
            except ChildProcessError:
                pass

    def close(self):
        # objects of the code under test may outlive this run (a cache of counters, say): they keep their last value and re-attach to the next run
        for obj in self.__dict__.get('_raws', ()):
            try:
                obj._last = int(self.raw[obj._r])
            except Exception:
                pass
            obj._sim = None
        for r, w in self.pipes:
            for fd in (r, w):
                try:
                    os.close(fd)
                except OSError:
                    pass
        self.pipes = []
        # numpy views keep the mmap alive; drop them first
        for name in ('fkeys', 'hdr', 'status', 'blocked', 'exitcode', 'pids', 'prio', 'ycount', 'lock_owner', 'raw', 'fired', 'events', 'shadow', 'probes'):
            self.__dict__.pop(name, None)
        self.bufs = []

    # ---------------------------------------------------------------- logging

    def log(self, kind, obj=0, a=0, b=0):
        n = int(self.hdr[H_NEV])
        if n < self.maxev:
            self.events[n] = (self.me, kind, obj, a, b)
            self.hdr[H_NEV] = n + 1
        else:
            self.hdr[H_EVOVER] = 1

    def event_list(self):
        n = int(self.hdr[H_NEV])
        return self.events[:n].copy()

    def digest(self):
        n = int(self.hdr[H_NEV])
        return hashlib.sha1(self.events[:n].tobytes()).hexdigest()

    def probe(self, i, inc=1):
        self.probes[i] += inc

    # ---------------------------------------------------------------- write monitor

    def register_buffer(self, mm, size):
        off = int(self.hdr[H_SHADOW])
        if off + size > SHADOW_ARENA:
            return  # not monitored (conservative)
        bid = int(self.hdr[H_NBUF])
        self.hdr[H_NBUF] = bid + 1
        self.hdr[H_SHADOW] = off + size
        view = numpy.frombuffer(mm, dtype=numpy.uint8, count=size)
        shadow = self.shadow[off:off + size]
        shadow[:] = view
        self.bufs.append((bid, view, shadow))
        self.log(K_ALLOC, bid, size)

    def observe_writes(self):
        for bid, view, shadow in self.bufs:
            if (view != shadow).any():
                idx = numpy.flatnonzero(view != shadow)
                # maximal contiguous runs
                brk = numpy.flatnonzero(numpy.diff(idx) > 1)
                starts = numpy.concatenate([[0], brk + 1])
                ends = numpy.concatenate([brk, [len(idx) - 1]])
                for s, e in zip(starts, ends):
                    self.log(K_WRITE, bid, int(idx[s]), int(idx[e]) + 1)
                shadow[:] = view

    # ---------------------------------------------------------------- scheduling

    def enabled(self):
        n = int(self.hdr[H_NSLOT])
        st = self.status
        out = []
        for s in range(n):
            v = st[s]
            if v == RUNNABLE:
                out.append(s)
            elif v == B_LOCK:
                if self.lock_owner[self.blocked[s]] == -1:
                    out.append(s)
            elif v == B_WAIT:
                t = self.status[self.blocked[s]]
                if t == EXITED or t == KILLED:
                    out.append(s)
        return out

    def _choose(self, exclude_me=False):
        E = self.enabled()
        if exclude_me and self.me in E:
            E.remove(self.me)
        if not E:
            return -1
        if len(E) > int(self.hdr[H_MAXCONC]):
            self.hdr[H_MAXCONC] = len(E)
        if len(E) == 1:
            return E[0]
        cur = self.me if self.me in E else None
        ndec = int(self.hdr[H_NDEC])
        self.hdr[H_NDEC] = ndec + 1
        kind = self.kind
        if kind == 'rr':
            for s in E:
                if s > self.me:
                    return s
            return E[0]
        if kind == 'pct':
            if ndec in self.change_points and cur is not None:
                self.prio[cur] = self.change_points[ndec]
            best = E[0]
            for s in E:
                if self.prio[s] > self.prio[best]:
                    best = s
            return best
        if kind == 'starve' and self.victim == -2:
            # "the computing process is slow": whoever is inside a wrapped function (between its ENTER and LEAVE marks) runs only when nobody else can
            out = [s for s in E if self.prio[s] <= 0]
            if out and len(out) < len(E):
                E = out
                if cur not in E:
                    cur = None
                if len(E) == 1:
                    return E[0]
        elif kind == 'starve':
            if self.victim in E and len(E) > 1:
                E = [s for s in E if s != self.victim]
                if cur == self.victim:
                    cur = None
                if len(E) == 1:
                    return E[0]
        if kind == 'abs':
            # explicit schedule: the tape names the process slot to run at each decision (long runs of one process)
            pos = int(self.hdr[H_TAPEPOS])
            if pos < len(self.tape):
                v = self.tape[pos]
                self.hdr[H_TAPEPOS] = pos + 1
                if v in E:
                    return v
            return cur if cur is not None else E[0]
        # tape driven choice ('tape' and 'starve')
        pos = int(self.hdr[H_TAPEPOS])
        if pos < len(self.tape):
            v = self.tape[pos]
            self.hdr[H_TAPEPOS] = pos + 1
        else:
            v = 0
        if v == 0:
            return cur if cur is not None else E[0]
        return E[(v - 1) % len(E)]

    def _wake(self, s):
        self.hdr[H_CUR] = s
        os.write(self.pipes[s][1], b'x')

    def _park(self):
        rfd = self.pipes[self.me][0]
        while True:
            b = os.read(rfd, 1)
            if b:
                break
            raise SystemExit(3)  # all writers gone: cannot happen while the root lives
        if self.hdr[H_OVER]:
            self._raise_over()

    def _raise_over(self):
        over = int(self.hdr[H_OVER])
        if self.me != 0:
            # only the root is ever woken after the end of the simulation
            while True:
                signal.pause()
        self.postmortem = True
        sys.settrace(None)
        if over == OVER_DEADLOCK:
            raise SimDeadlock(f'deadlock: lock {int(self.hdr[H_DL_LOCK])} owner slot {int(self.hdr[H_DL_OWNER])}')
        raise SimLivelock('step cap exceeded')

    def _declare_over(self, over):
        '''No process can make progress (or the step cap was hit): end the simulated run.'''
        if not self.hdr[H_OVER]:
            self.hdr[H_OVER] = over
            if over == OVER_DEADLOCK:
                self._note_deadlock()
            else:
                self.log(K_LIVELOCK)
        if self.me == 0:
            self._raise_over()
        self._wake(0)
        while True:
            signal.pause()

    def _switch(self):
        '''Give the scheduler a decision; returns when this process holds the baton again.'''
        if self.postmortem:
            return
        step = int(self.hdr[H_STEP]) + 1
        self.hdr[H_STEP] = step
        if step > self.step_cap:
            self._declare_over(OVER_LIVELOCK)
        nxt = self._choose()
        if nxt == -1:
            self._declare_over(OVER_DEADLOCK)
        if nxt != self.me:
            self._wake(nxt)
            self._park()

    def yield_point(self, kind, obj=0, a=0, b=0, raisable=False):
        if self.postmortem or not self.active:
            return
        self.observe_writes()
        self.log(kind, obj, a, b)
        if self.kind == 'starve' and self.victim == -2:
            if kind == K_ENTER:
                self.prio[self.me] += 1
            elif kind == K_LEAVE:
                self.prio[self.me] -= 1
        self._count_and_fault(kind, raisable)
        self._switch()

    def _count_and_fault(self, kind, raisable=False):
        yc = self.ycount[self.me]
        yc[kind] += 1
        yc[0] += 1
        fl = self._fault_by_proc.get(self.me)
        if fl:
            for i, f in fl:
                if self.fired[i]:
                    continue
                yk = K[f.get('ykind', 'ANY')]
                fk = f['kind']
                if fk == 'KILL':
                    if (yk == 0 or yk == kind) and yc[yk] == f['n']:
                        self.fired[i] = 1
                        self._die()
                elif fk == 'RAISE':
                    # fires at the first raisable line event at or after the n-th one (a line event on a `with`
                    # statement may be the re-visit that precedes the __exit__ call: raising there would skip
                    # __exit__, which no failing operation of the program itself can do)
                    if kind == K_LINE and raisable and yc[K_LINE] >= f['n']:
                        self.fired[i] = 1
                        self.log(K_F_RAISE, i)
                        raise InjectedFault('injected allocation failure')

    def _die(self):
        '''KILL fault: this process dies here; locks it holds stay held.'''
        self.log(K_F_KILL, self.me, len(self.my_locks))
        self._drop_flocks()
        self.status[self.me] = KILLED
        nxt = self._choose(exclude_me=True)
        if nxt == -1:
            self.hdr[H_STEP] += 1
            self._declare_over_and_die()
        self.hdr[H_STEP] += 1
        self._wake(nxt)
        os.kill(os.getpid(), signal.SIGKILL)
        while True:
            signal.pause()

    def _drop_flocks(self):
        for l in self.my_flocks:
            if self.lock_owner[l] == self.me:
                self.lock_owner[l] = -1
                self.log(K_FUNLOCK, l, 1)
        self.my_flocks = []

    def flock_id(self, key):
        '''Lock-table slot for a file (by name digest); shared by all processes of the run.'''
        n = int(self.hdr[H_NFILEID])
        for i in range(n):
            if self.fkeys[i] == key:
                return NL // 2 + i
        if n >= NL // 2:
            raise RuntimeError('procsim: file table full')
        self.fkeys[n] = key
        self.hdr[H_NFILEID] = n + 1
        self.lock_owner[NL // 2 + n] = -1
        return NL // 2 + n

    def flock(self, l):
        self.acquire(l, K_FLOCK, K_FLOCKOK)
        if l in self.my_locks:
            self.my_locks.remove(l)
        self.my_flocks.append(l)

    def try_flock(self, l):
        '''flock(LOCK_EX | LOCK_NB): a yield point, then either the lock or False.'''
        if self.postmortem or not self.active:
            return True
        self.yield_point(K_FLOCK, l, 2)
        if self.lock_owner[l] != -1:
            self.probe(0)
            return False
        self.lock_owner[l] = self.me
        self.my_flocks.append(l)
        self.log(K_FLOCKOK, l)
        return True

    # simulated clock: the system under test reads no clock (DESIGN 0); this seam exists for changes that introduce one (a polling loop
    # with a time-out).  Virtual time only advances through sleep(); every sleep is a yield point.
    def clock_now(self):
        return float(self.hdr[H_VCLOCK]) / 1e6

    def clock_sleep(self, seconds):
        self.hdr[H_VCLOCK] += int(max(0., float(seconds)) * 1e6)
        self.yield_point(K_SLEEP, 0, int(max(0., float(seconds)) * 1000))

    def funlock(self, l):
        if l in self.my_flocks:
            self.my_flocks.remove(l)
            self.my_locks.append(l)
            self.release(l, K_FUNLOCK)

    def die_now(self):
        '''Public: the calling process is killed at this instant (used by the file layer for torn writes).'''
        self.observe_writes()
        self._die()

    def _note_deadlock(self):
        '''Name a lock that somebody is blocked on and its owner, preferring one whose owner was killed.'''
        n = int(self.hdr[H_NSLOT])
        for s in range(n):
            if self.status[s] == B_LOCK:
                l = int(self.blocked[s])
                self.hdr[H_DL_LOCK] = l
                self.hdr[H_DL_OWNER] = int(self.lock_owner[l])
                own = int(self.lock_owner[l])
                if own >= 0 and self.status[own] == KILLED:
                    break
        self.log(K_DEADLOCK, int(self.hdr[H_DL_LOCK]), int(self.hdr[H_DL_OWNER]))

    def _declare_over_and_die(self):
        if not self.hdr[H_OVER]:
            self.hdr[H_OVER] = OVER_DEADLOCK
            self._note_deadlock()
        self._wake(0)
        os.kill(os.getpid(), signal.SIGKILL)
        while True:
            signal.pause()

    # ---------------------------------------------------------------- process seam

    def fork(self):
        if self.postmortem or not self.active:
            return os.fork()
        # FORK_FAIL fault
        yc = self.ycount[self.me]
        for i, f in self._fault_by_proc.get(self.me, ()):
            if f['kind'] == 'FORK_FAIL' and not self.fired[i] and yc[K_FORK] + 1 == f['n']:
                self.fired[i] = 1
                self.observe_writes()
                self.log(K_F_FORKFAIL, i)
                yc[K_FORK] += 1
                raise OSError(errno.EAGAIN, 'injected: Resource temporarily unavailable')
        slot = int(self.hdr[H_NSLOT])
        if slot >= NS:
            raise OSError(errno.EAGAIN, 'procsim: out of process slots')
        self.hdr[H_NSLOT] = slot + 1
        self.status[slot] = RUNNABLE
        self.observe_writes()
        pid = os.fork()
        if pid == 0:
            self.me = slot
            self.my_locks = []
            self.my_flocks = []
            self.pids[slot] = os.getpid()
            self._park()
            self.log(K_START, slot)
            return 0
        self.pids[slot] = pid
        self.log(K_FORK, slot)
        self._count_and_fault(K_FORK)
        self._switch()
        return pid

    def slot_of(self, pid):
        n = int(self.hdr[H_NSLOT])
        for s in range(n):
            if self.pids[s] == pid:
                return s
        return -1

    def exit(self, code):
        if not self.active:
            os._exit(code)
        if self.postmortem:
            os._exit(code)
        sys.settrace(None)
        self.observe_writes()
        self.log(K_EXIT, self.me, code, len(self.my_locks))
        self._count_and_fault(K_EXIT)
        self._drop_flocks()
        self.status[self.me] = EXITED
        self.exitcode[self.me] = code
        self.hdr[H_STEP] += 1
        nxt = self._choose(exclude_me=True)
        if nxt == -1:
            if not self.hdr[H_OVER]:
                self.hdr[H_OVER] = OVER_DEADLOCK
                self._note_deadlock()
            self._wake(0)
        else:
            self._wake(nxt)
        os._exit(code)

    def waitpid(self, pid, options=0):
        s = self.slot_of(pid) if self.active else -1
        if s < 0 or not self.active:
            return os.waitpid(pid, options)
        if self.postmortem:
            if self.status[s] not in (EXITED, KILLED):
                self.status[s] = KILLED
                try:
                    os.kill(pid, signal.SIGKILL)
                except ProcessLookupError:
                    pass
            r = os.waitpid(pid, options)
            self.pids[s] = -pid
            return r
        self.observe_writes()
        self.log(K_WAIT, s)
        self._count_and_fault(K_WAIT)
        while self.status[s] not in (EXITED, KILLED):
            self.status[self.me] = B_WAIT
            self.blocked[self.me] = s
            self._switch()
        self.status[self.me] = RUNNABLE
        r = os.waitpid(pid, options)
        self.pids[s] = -pid  # reaped: never signal this pid again
        # WAIT_ECHILD fault: the host application ignores SIGCHLD (or reaps children itself): the kernel lets waitpid block until the
        # child is gone and then reports ECHILD - the exit status is lost
        yc = self.ycount[self.me]
        for i, f in self._fault_by_proc.get(self.me, ()):
            if f['kind'] == 'WAIT_ECHILD' and not self.fired[i] and yc[K_WAIT] >= f['n']:
                self.fired[i] = 1
                self.log(K_F_ECHILD, s)
                self._switch()
                raise ChildProcessError(errno.ECHILD, 'injected: No child processes')
        self.log(K_WAITOK, s)
        self._switch()
        return r

    def kill(self, pid, sig):
        s = self.slot_of(pid) if self.active else -1
        if s < 0:
            return os.kill(pid, sig)
        if sig != signal.SIGKILL:
            return os.kill(pid, sig)
        self.observe_writes()
        self.log(K_KILLSIG, s)
        if self.status[s] not in (EXITED, KILLED):
            self.status[s] = KILLED
        try:
            os.kill(pid, sig)
        except ProcessLookupError:
            pass
        if not self.postmortem:
            self._count_and_fault(K_KILLSIG)
            self._switch()

    # ---------------------------------------------------------------- locks and raw values

    def new_lock(self):
        l = int(self.hdr[H_NLOCK])
        if l >= NL // 2:
            raise RuntimeError('procsim: lock table full')
        self.hdr[H_NLOCK] = l + 1
        self.lock_owner[l] = -1
        return SimLock(self, l)

    def acquire(self, l, kind_try=K_ACQ, kind_ok=K_ACQOK):
        if self.postmortem or not self.active:
            return True
        if self.lock_owner[l] == self.me:
            self.log(K_MARK, 901, l)  # self-deadlock (I3)
        self.yield_point(kind_try, l)
        while self.lock_owner[l] != -1:
            self.probe(0)  # "a process blocked on a lock"
            self.status[self.me] = B_LOCK
            self.blocked[self.me] = l
            self._switch()
        self.status[self.me] = RUNNABLE
        self.lock_owner[l] = self.me
        self.my_locks.append(l)
        self.log(kind_ok, l)
        return True

    def release(self, l, kind=K_REL):
        if self.postmortem or not self.active:
            return
        if self.lock_owner[l] != self.me:
            self.log(K_MARK, 902, l)  # release of a lock not owned
            return
        self.observe_writes()
        self.lock_owner[l] = -1
        if l in self.my_locks:
            self.my_locks.remove(l)
        self.log(kind, l)
        self._count_and_fault(kind)
        self._switch()

    def new_raw(self, init):
        r = int(self.hdr[H_NRAW])
        if r >= NR:
            raise RuntimeError('procsim: raw table full')
        self.hdr[H_NRAW] = r + 1
        self.raw[r] = init
        obj = SimRaw(self, r)
        self.__dict__.setdefault('_raws', []).append(obj)
        return obj

    # ---------------------------------------------------------------- tracing

    def _gtrace(self, frame, event, arg):
        code = frame.f_code
        if code is _RANGE_NEXT_CODE:
            return self._ltrace_next
        if self.granularity == 'line' and (code.co_filename.startswith('function_') or code in self.trace_codes):
            return self._ltrace
        return None

    def _raisable(self, frame):
        line = linecache.getline(frame.f_code.co_filename, frame.f_lineno).lstrip()
        return not line.startswith('with ')

    def _ltrace(self, frame, event, arg):
        if event == 'line':
            self.yield_point(K_LINE, 0, 0, raisable=self._raisable(frame))
        return self._ltrace

    def _ltrace_next(self, frame, event, arg):
        if event == 'return':
            if arg is not None and self.active and not self.postmortem:
                r = getattr(getattr(frame.f_locals.get('self'), '_index', None), '_r', -1)
                self.log(K_NEXTRET, r, int(arg))
        elif event == 'line' and self.granularity == 'line':
            self.yield_point(K_LINE, 1, 0, raisable=self._raisable(frame))
        return self._ltrace_next

    # ---------------------------------------------------------------- summaries

    def fired_faults(self):
        return [int(v) for v in self.fired[:len(self.faults)]]


_RANGE_NEXT_CODE = None


def set_range_next_code(code):
    global _RANGE_NEXT_CODE
    _RANGE_NEXT_CODE = code


class SimLock:
    '''Non-recursive, non-robust lock with the semantics of a POSIX semaphore: a killed holder never releases.
    A lock object that outlives the run it was created in re-attaches (unlocked) to the run that uses it next.'''

    def __init__(self, sim, l):
        self._sim = sim
        self._l = l

    def _bound(self):
        cur = _CURRENT
        if cur is not None and cur is not self._sim and cur.active and not cur.postmortem and 'lock_owner' in cur.__dict__:
            fresh = cur.new_lock()
            self._sim, self._l = cur, fresh._l
        return self._sim

    def acquire(self, block=True, timeout=None):
        return self._bound().acquire(self._l)

    def release(self):
        self._bound().release(self._l)

    def __enter__(self):
        return self._bound().acquire(self._l)

    def __exit__(self, *exc):
        self._bound().release(self._l)


class SimRaw:
    '''Shared integer.  One that outlives the run it was created in keeps its last value and re-attaches to the run that uses it next.'''

    def __init__(self, sim, r):
        self._sim = sim
        self._r = r
        self._last = int(sim.raw[r])

    def _bound(self):
        cur = _CURRENT
        if cur is not None and cur is not self._sim and cur.active and not cur.postmortem and 'raw' in cur.__dict__:
            fresh = cur.new_raw(self._last)
            self._sim, self._r = cur, fresh._r
        return self._sim

    @property
    def value(self):
        sim = self._bound()
        if sim is None:
            return self._last
        sim.yield_point(K_RGET, self._r)
        return int(sim.raw[self._r])

    @value.setter
    def value(self, v):
        sim = self._bound()
        if sim is None:
            self._last = int(v)
            return
        sim.yield_point(K_RSET, self._r, int(v))
        sim.raw[self._r] = v


# ------------------------------------------------------------------ seams (module stand-ins)

class MPStub:
    '''Stands in for the `multiprocessing` module inside nutils.parallel and generated scripts.'''

    def __getattr__(self, name):
        return getattr(_real_mp, name)

    def Lock(self):
        sim = _CURRENT
        if sim is None or not sim.active or sim.postmortem:
            return _real_mp.Lock()
        return sim.new_lock()

    def RawValue(self, typecode, init=0):
        sim = _CURRENT
        if sim is None or not sim.active or sim.postmortem:
            return _real_mp.RawValue(typecode, init)
        return sim.new_raw(init)


class OSProxy:
    '''Stands in for the `os` module inside nutils.parallel.'''

    def __getattr__(self, name):
        return getattr(os, name)

    def fork(self):
        sim = _CURRENT
        if sim is None:
            return os.fork()
        return sim.fork()

    def _exit(self, code):
        sim = _CURRENT
        if sim is None:
            os._exit(code)
        sim.exit(code)

    def waitpid(self, pid, options):
        sim = _CURRENT
        if sim is None:
            return os.waitpid(pid, options)
        return sim.waitpid(pid, options)

    def kill(self, pid, sig):
        sim = _CURRENT
        if sim is None:
            return os.kill(pid, sig)
        return sim.kill(pid, sig)


class MmapProxy:
    '''Stands in for the `mmap` module inside nutils.parallel: real anonymous mappings, registered for the write monitor.'''

    def __getattr__(self, name):
        return getattr(_real_mmap, name)

    def mmap(self, fileno, length, *args, **kwargs):
        sim = _CURRENT
        if sim is not None and sim.active and not sim.postmortem:
            yc = sim.ycount[sim.me]
            yc[K_ALLOC] += 1
            for i, f in sim._fault_by_proc.get(sim.me, ()):
                if f['kind'] == 'ALLOC_FAIL' and not sim.fired[i] and yc[K_ALLOC] == f['n']:
                    sim.fired[i] = 1
                    sim.log(K_F_ALLOCFAIL, i)
                    raise OSError(errno.ENOMEM, 'injected: Cannot allocate memory')
        mm = _real_mmap.mmap(fileno, length, *args, **kwargs)
        if sim is not None and sim.active and not sim.postmortem and fileno == -1:
            sim.register_buffer(mm, length)
        return mm


class patched_parallel:
    '''Context manager installing the process seams in nutils.parallel / nutils.evaluable.'''

    def __enter__(self):
        from nutils import parallel, evaluable
        set_range_next_code(parallel.range.__next__.__code__)
        self._saved = (parallel.os, parallel.multiprocessing, parallel.mmap, evaluable.multiprocessing)
        self.mp = MPStub()
        parallel.os = OSProxy()
        parallel.multiprocessing = self.mp
        parallel.mmap = MmapProxy()
        evaluable.multiprocessing = self.mp
        return self

    def __exit__(self, *exc):
        from nutils import parallel, evaluable
        parallel.os, parallel.multiprocessing, parallel.mmap, evaluable.multiprocessing = self._saved
        return False


# ------------------------------------------------------------------ history analysis

def happens_before_races(events, nslots):
    '''Vector-clock analysis of a recorded history.

    Returns a list of (buffer, lo, hi, proc_a, proc_b) for pairs of WRITE events by
    different processes on overlapping bytes that are not ordered by
    happens-before (fork, exit->wait, lock release->acquire, program order).'''
    n = nslots
    vc = [[0] * n for _ in range(n)]
    started = [False] * n
    started[0] = True
    fork_vc = {}
    exit_vc = {}
    rel_vc = {}
    writes = {}  # buf -> list of (lo, hi, proc, vc copy)
    races = []
    for p, kind, obj, a, b in events.tolist():
        c = vc[p]
        if kind == K_START:
            src = fork_vc.get(p)
            if src:
                for i in range(n):
                    if src[i] > c[i]:
                        c[i] = src[i]
        c[p] += 1
        if kind == K_FORK:
            fork_vc[obj] = list(c)
        elif kind == K_EXIT or kind == K_F_KILL:
            exit_vc[p] = list(c)
        elif kind == K_WAITOK:
            src = exit_vc.get(obj)
            if src:
                for i in range(n):
                    if src[i] > c[i]:
                        c[i] = src[i]
        elif kind in (K_REL, K_FUNLOCK):
            rel_vc[obj] = list(c)
        elif kind in (K_ACQOK, K_FLOCKOK):
            src = rel_vc.get(obj)
            if src:
                for i in range(n):
                    if src[i] > c[i]:
                        c[i] = src[i]
        elif kind == K_WRITE:
            lst = writes.setdefault(obj, [])
            for lo, hi, q, qvc in lst:
                if q != p and lo < b and a < hi:
                    # ordered iff qvc[q] <= c[q]
                    if qvc[q] > c[q]:
                        races.append((obj, max(lo, a), min(hi, b), q, p))
            lst.append((a, b, p, list(c)))
    return races


def claims_from_events(events):
    '''Per raw value: list of (proc, claimed iteration) from RSET events; and NEXTRET values per proc.'''
    sets = {}
    rets = []
    for p, kind, obj, a, b in events.tolist():
        if kind == K_RSET:
            sets.setdefault(obj, []).append((p, a - 1))
        elif kind == K_NEXTRET:
            rets.append((p, a))
    return sets, rets


def format_events(events, limit=400):
    out = []
    for i, (p, kind, obj, a, b) in enumerate(events.tolist()[:limit]):
        out.append(f'{i:5d} p{p} {KNAME.get(kind, kind)} {obj} {a} {b}')
    return out
