'''Sensitivity proof: apply each built-in mutant to a scratch copy of src/nutils and require the check to fail.

`vsim mutants [ID ...] [--only MUTANT]` - never touches /repo; scratch copies live under /dev/shm and are removed.'''

import os, sys, shutil, subprocess, json, time
from . import core, batch

M = {}


def mutant(prop, mid, file, old, new, note='', count=None, expect=None):
    M.setdefault(prop, []).append(dict(id=mid, file=file, old=old, new=new, note=note, count=count, expect=expect))


# ------------------------------------------------------------------ C16
mutant('C16', 'range-no-lock', 'parallel.py',
       "        with self._lock:\n            iiter = self._index.value  # claim next value\n            if iiter >= self._stop:\n                raise StopIteration\n            self._index.value = iiter + 1\n",
       "        if True:\n            iiter = self._index.value  # claim next value\n            if iiter >= self._stop:\n                raise StopIteration\n            self._index.value = iiter + 1\n",
       'iteration counter read-modify-write without its lock', expect='I1')
mutant('C16', 'range-store-outside-lock', 'parallel.py',
       "            if iiter >= self._stop:\n                raise StopIteration\n            self._index.value = iiter + 1\n",
       "            if iiter >= self._stop:\n                raise StopIteration\n        self._index.value = iiter + 1\n",
       'counter increment moved out of the critical section', expect='I1')
mutant('C16', 'shempty-private', 'parallel.py',
       "    if size == 0 or maxprocs.current == 1:\n        return numpy.empty(shape, dtype)\n",
       "    if True:\n        return numpy.empty(shape, dtype)\n",
       'shared arrays are process private: child contributions invisible to the parent', expect='O1')
mutant('C16', 'compile-never-shared', 'evaluable.py',
       "        if self._parallel and len(out_block_id) == 1:\n",
       "        if False and self._parallel and len(out_block_id) == 1:\n",
       'accumulators allocated outside loops are not shared', expect='O1')
mutant('C16', 'add-at-unlocked', 'evaluable.py',
       "        self.exec(_pyast.Variable('numpy').get_attr('add').get_attr('at').call(out, indices, values))\n",
       "        self._block.append(_pyast.Exec(_pyast.Variable('numpy').get_attr('add').get_attr('at').call(out, indices, values)))\n",
       'scatter-add into a shared array emitted outside its lock', expect='I2')
mutant('C16', 'iadd-unlocked', 'evaluable.py',
       "        self.exec(_pyast.Variable('numpy').get_attr('add').call(acc, inc, out=acc))\n",
       "        self._block.append(_pyast.Exec(_pyast.Variable('numpy').get_attr('add').call(acc, inc, out=acc)))\n",
       'in-place accumulate into a shared array emitted outside its lock', expect='I2')
mutant('C16', 'child-exit-0-on-error', 'parallel.py',
       "                os._exit(1)  # communicate failure to main process\n",
       "                os._exit(0)  # communicate failure to main process\n",
       'a worker that raised reports success', expect='O2')
mutant('C16', 'nfails-ignored', 'parallel.py',
       "        if nfails:  # failure in child process: raise exception\n",
       "        if False:  # failure in child process: raise exception\n",
       'failed workers are not reported', expect='O2')
mutant('C16', 'no-wait', 'parallel.py',
       "            nfails = sum(not _wait(pid) for pid in child_pids)\n",
       "            nfails = 0\n",
       'parent does not wait for its workers', expect='O1')
mutant('C16', 'signaled-is-success', 'parallel.py',
       "    elif os.WIFSIGNALED(status):\n        s = os.WTERMSIG(status)\n",
       "    elif os.WIFSIGNALED(status):\n        return True\n        s = os.WTERMSIG(status)\n",
       'a killed worker counts as success', expect='O2')
mutant('C16', 'range-after-fork', 'parallel.py',
       "    rng = range(nitems)  # shared range, must be created pre-fork\n    with fork(nitems), treelog.iter.wrap(_pct(name, nitems), rng) as wrprng:\n        yield wrprng\n",
       "    with fork(nitems):\n        rng = range(nitems)\n        with treelog.iter.wrap(_pct(name, nitems), rng) as wrprng:\n            yield wrprng\n",
       'every process gets a private counter: every iteration runs in every process', expect='O1')
mutant('C16', 'locate-private-result', 'topology.py',
       "        ielems = parallel.shempty(len(coords), dtype=int)\n",
       "        ielems = numpy.empty(len(coords), dtype=int)\n",
       'locate results of child processes are lost', expect='O1')

# ------------------------------------------------------------------ C18
mutant('C18', 'fn-eoferror-unhandled', 'cache.py',
       "            except (EOFError, pickle.UnpicklingError, IndexError):\n                log.debug('[cache.function {}] failed to load",
       "            except (pickle.UnpicklingError, IndexError):\n                log.debug('[cache.function {}] failed to load",
       'an empty entry (process killed between touch and write) is not survived', expect='J1')
mutant('C18', 'fn-unpicklingerror-unhandled', 'cache.py',
       "            except (EOFError, pickle.UnpicklingError, IndexError):\n                log.debug('[cache.function {}] failed to load",
       "            except (EOFError, IndexError):\n                log.debug('[cache.function {}] failed to load",
       'a torn entry is not survived', expect='J1')
mutant('C18', 'fn-no-lock', 'cache.py',
       "            log.debug('[cache.function {}] acquiring lock'.format(hkey))\n            _lock_file(f)\n",
       "            log.debug('[cache.function {}] acquiring lock'.format(hkey))\n",
       'entry not locked: concurrent callers both execute the function', expect='J3')
mutant('C18', 'lock-shared', 'cache.py',
       "        fcntl.flock(f, fcntl.LOCK_EX)\n",
       "        fcntl.flock(f, fcntl.LOCK_SH)\n",
       'shared instead of exclusive lock', expect='J3')
mutant('C18', 'fn-dump-order', 'cache.py',
       "            pickle.dump((value, log_), f)\n",
       "            pickle.dump((log_, value), f)\n",
       'entry written in an order the reader does not expect', expect='J1')
mutant('C18', 'fn-no-replay', 'cache.py',
       "                log.debug('[cache.function {}] load'.format(hkey))\n                log_.replay()\n",
       "                log.debug('[cache.function {}] load'.format(hkey))\n",
       'log output not replayed on a cache hit', expect='J2')
mutant('C18', 'fn-key-without-kwargs', 'cache.py',
       "        for hkv in sorted(hashlib.sha1(k.encode()).digest()+types.nutils_hash(v) for k, v in kwargs.items()):\n            h.update(hkv)\n",
       "",
       'keyword-only arguments are not part of the key', expect='J1')
mutant('C18', 'fn-key-first-arg-only', 'cache.py',
       "        for arg in args:\n            h.update(types.nutils_hash(arg))\n",
       "        for arg in args[:1]:\n            h.update(types.nutils_hash(arg))\n",
       'only the first positional argument is part of the key', expect='J1')
mutant('C18', 'fn-old-fail-ignored', 'cache.py',
       "                    if fail:\n                        raise pickle.UnpicklingError\n",
       "",
       'old-format entries that recorded a failure are served as values', expect='J1')
mutant('C18', 'rec-history-wrong-end', 'cache.py',
       "                                history = history[1:]\n",
       "                                history = history[:-1]\n",
       'history truncated at the wrong end', expect='J4')
mutant('C18', 'rec-history-not-truncated', 'cache.py',
       "                            if len(history) > length:\n                                history = history[1:]\n",
       "",
       'history handed to resume is longer than the recursion length', expect='J4')
mutant('C18', 'rec-stop-not-stored', 'cache.py',
       "                        pickle.dump((log_, stop, value), f)\n",
       "                        pickle.dump((log_, False, value), f)\n",
       'end-of-sequence marker lost: replay continues past the end', expect='J4')
mutant('C18', 'rec-resume-index-off', 'cache.py',
       "                            resume = self.resume_index(history, i)\n",
       "                            resume = self.resume_index(history, i+1)\n",
       'resume started at the wrong iteration', expect='J4')
mutant('C18', 'rec-unpicklingerror-unhandled', 'cache.py',
       "                        except (pickle.UnpicklingError, IndexError):\n",
       "                        except IndexError:\n",
       'a torn recursion item is not survived', expect='J1')
mutant('C18', 'rec-eof-unhandled', 'cache.py',
       "                        except EOFError:\n                            log.debug('[cache.Recursion {}.{:04d}] cache exhausted'.format(hkey, i))\n                            exhausted = True\n",
       "",
       'an empty recursion item (the normal end of the cache) is not survived', expect='J1')
mutant('C18', 'rec-no-lock', 'cache.py',
       "                    log.debug('[cache.Recursion {}.{:04d}] acquiring lock'.format(hkey, i))\n                    _lock_file(f)\n",
       "                    log.debug('[cache.Recursion {}.{:04d}] acquiring lock'.format(hkey, i))\n",
       'recursion items not locked', expect='J3')
mutant('C18', 'rec-no-replay', 'cache.py',
       "                            log.debug('[cache.Recursion {}.{:04d}] load'.format(hkey, i))\n                            log_.replay()\n",
       "                            log.debug('[cache.Recursion {}.{:04d}] load'.format(hkey, i))\n",
       'log of cached recursion items not replayed', expect='J2')
mutant('C18', 'rec-no-seek', 'cache.py',
       "                            resume = self.resume_index(history, i)\n                            f.seek(0)\n",
       "                            resume = self.resume_index(history, i)\n",
       'recomputed item written after the torn bytes instead of replacing them: benign before fix a1b0222 (values right, item never cached); since entries are truncated before they are rewritten the stale prefix stays in front of the new pickle and later calls fail or, for items of several pickle frames, load wrong objects', expect='J')

# ------------------------------------------------------------------ C14
mutant('C14', 'no-finite-check', 'matrix/_base.py',
       "        if not numpy.isfinite(lhs).all():\n            raise MatrixError('solver returned non-finite left hand side')\n        resnorm = numpy.linalg.norm(rhs - self @ lhs, axis=0).max()\n        treelog.debug('solver returned with residual {:.0e}'.format(resnorm))\n        if not numpy.isfinite(resnorm):\n            raise MatrixError('solver returned with non-finite residual')\n",
       "        resnorm = numpy.linalg.norm(rhs - self @ lhs, axis=0).max()\n        treelog.debug('solver returned with residual {:.0e}'.format(resnorm))\n",
       'non-finite back-end results are passed on (both the check of the vector and, since fix 4ef6b58, the check of the residual norm removed: each alone is covered by the other)', expect='R-non-finite')
mutant('C14', 'tolerance-never-raises', 'matrix/_base.py',
       "        if resnorm > atol > 0:\n            raise ToleranceNotReached(lhs)\n",
       "",
       'unconverged linear solves are returned silently', expect='R-tolerance-not-met')
mutant('C14', 'float-constraints-dropped', 'matrix/_base.py',
       "                lhs[~J] = constrain[~J].reshape((-1,)+(1,)*(lhs.ndim-1))\n",
       "",
       'prescribed values of float constraints are not imposed', expect='R-constraint-violated')
mutant('C14', 'backend-exception-gives-zeros', 'matrix/_base.py',
       "        except Exception as e:\n            raise MatrixError('solver failed with error: {}'.format(e)) from e\n        if not numpy.isfinite(lhs).all():",
       "        except Exception as e:\n            lhs = numpy.zeros_like(rhs)\n        if not numpy.isfinite(lhs).all():",
       'a failing back end is papered over with zeros', expect='R-tolerance-not-met')
mutant('C14', 'submatrix-memo-rows-only', 'matrix/_base.py',
       "        if self._cached_submatrix is None or (rows != self._cached_rows).any() or (cols != self._cached_cols).any():\n",
       "        if self._cached_submatrix is None or (rows != self._cached_rows).any():\n",
       'cached sub-matrix reused for other columns (needs two solves on one matrix with equal row but different column selection)', expect='R-')
mutant('C14', 'system-direct-check-dropped', 'solver.py',
       "            if tol > 0 and not resnorm <= tol:\n                raise SolverError(f'failed to reach desired tolerance of {tol:.0e}')\n",
       "",
       'System.solve does not verify the residual norm of a direct method', expect='R-tolerance-not-met')
mutant('C14', 'step-retry-from-advanced-arguments', 'solver.py',
       "                halfway_arguments = self.step(arguments=arguments0, **halfstep_args)\n",
       "                halfway_arguments = self.step(arguments=arguments, **halfstep_args)\n",
       'reverts fix a3d5258: time advanced twice after a bisection retry', expect='R-time-not-advanced')
mutant('C14', 'droptol-flipped', 'solver.py',
       "        mycons[colidx[abs(data) > droptol]] = False # unconstrain dofs with nonzero columns\n",
       "        mycons[colidx[abs(data) < droptol]] = False # unconstrain dofs with nonzero columns\n",
       'drop tolerance comparison inverted', expect='R-droptol-pattern')
mutant('C14', 'nan-residual-accepted', 'solver.py',
       "            while iiter < miniter or not resnorm <= tol:\n                if not numpy.isfinite(resnorm):\n                    raise SolverError('residual norm is not finite')\n",
       "            while iiter < miniter or resnorm > tol:\n",
       'reverts fix 5c52c61: NaN residual norm accepted as converged', expect='R-tolerance-not-met')
mutant('C14', 'bool-constraints-ignore-lhs0', 'matrix/_base.py',
       "            if constrain.dtype == bool:\n                J = ~constrain\n",
       "            if constrain.dtype == bool:\n                J = ~constrain\n                lhs[constrain] = 0\n",
       'boolean constraints do not hold the values of the initial guess', expect='R-constraint-violated')
mutant('C14', 'newton-unconstrained-update', 'solver.py',
       "        v[free] = x\n",
       "        v[free] = x\n            v[~free] = numpy.where(abs(v[~free]) < 1e-300, v[~free], v[~free] * (1 + 1e-15))\n",
       'constrained entries perturbed by one ulp on reconstruction', expect='R-constraint-violated')

# ------------------------------------------------------------------ C03
mutant('C03', 'cached-constants-not-frozen', 'evaluable.py',
       "        for v in cache_vars:\n            main.append(_pyast.Exec(v.get_attr('setflags').call(write=_pyast.LiteralBool(False))))\n",
       "",
       'cached constant intermediates are handed out writable', expect='V-result')
mutant('C03', 'loops-cached-as-constant', 'evaluable.py',
       "            if isinstance(evaluable, Array) and evaluable.isconstant:\n                cache_evaluables.add(evaluable)\n",
       "            if isinstance(evaluable, Array) and (evaluable.isconstant or isinstance(evaluable, Loop)):\n                cache_evaluables.add(evaluable)\n",
       'argument dependent loops are skipped on rerun', expect='V-result')
mutant('C03', 'first-run-flag-cleared-early', 'evaluable.py',
       "        main.append(_pyast.Assign(first_run, _pyast.LiteralBool(False)))\n        main = _pyast.Block([\n            _pyast.Global((first_run,) + cache_vars),\n            _pyast.If(first_run, main, main_rerun),\n        ])\n",
       "        main = _pyast.Block([\n            _pyast.Global((first_run,) + cache_vars),\n            _pyast.If(first_run, _pyast.Block([_pyast.Assign(first_run, _pyast.LiteralBool(False)), main]), main_rerun),\n        ])\n",
       'a first run that fails half way leaves the function in rerun mode with unset cached values', expect='E-call-raised')
mutant('C03', 'scalar-arguments-count-as-constant', 'evaluable.py',
       "    @property\n    def isconstant(self):\n        return not self.arguments\n",
       "    @property\n    def isconstant(self):\n        return not any(getattr(a, 'ndim', 1) for a in self.arguments)\n",
       'sub-expressions depending only on 0-d arguments are cached across calls (needs a scalar argument that changes)', expect='V-result')
mutant('C03', 'constant-matrix-too-eager', 'solver.py',
       "        self.is_constant_matrix = self.is_linear and not any(col.arguments for row in block_jacobian for col in row)\n",
       "        self.is_constant_matrix = self.is_linear\n",
       'System caches the matrix of a linear problem although it depends on another argument', expect='V-system')

mutant('C03', 'locate-arguments-dict-not-copied', 'topology.py',
       "        ielems, points = self._locate(geom, coords, tol, eps, dict(arguments or ()), maxiter, maxdist, skip_missing)\n",
       "        ielems, points = self._locate(geom, coords, tol, eps, arguments if arguments is not None else {}, maxiter, maxdist, skip_missing)\n",
       'locate stores its private arguments in the dictionary passed by the caller', expect='A-argument')

# ------------------------------------------------------------------ C17
mutant('C17', 'ndarray-hash-without-shape-dtype', 'types.py',
       "        h.update('{}{}\\0'.format(','.join(map(str, data.shape)), data.dtype.str).encode())\n",
       "",
       'arrays with equal bytes but different shape or dtype collide', expect='H-collision')
mutant('C17', 'dict-items-unsorted', 'types.py',
       "        for item in sorted(nutils_hash(k) + nutils_hash(v) for k, v in data.items()):\n            h.update(item)\n    elif t in (set, frozenset):",
       "        for item in (nutils_hash(k) + nutils_hash(v) for k, v in data.items()):\n            h.update(item)\n    elif t in (set, frozenset):",
       'dict hash depends on insertion order', expect='H-')
mutant('C17', 'set-items-unsorted', 'types.py',
       "        for item in sorted(map(nutils_hash, data)):\n            h.update(item)\n",
       "        for item in map(nutils_hash, data):\n            h.update(item)\n",
       'set hash depends on iteration order, i.e. on the hash seed of the interpreter', expect='H-')
mutant('C17', 'dataclass-not-interned', 'types.py',
       "        if (self := cls.__cache.get(bound.args)) is None:\n",
       "        if True:\n",
       'structurally equal DataClass values are distinct objects', expect='I-interning')
mutant('C17', 'singleton-not-interned', 'types.py',
       "        try:\n            self = cls._cache[args]\n        except KeyError:\n            self = cls._cache[args] = super()._new(*args)\n        return self\n",
       "        self = super()._new(*args)\n        return self\n",
       'structurally equal Singleton values are distinct objects', expect='I-interning')
mutant('C17', 'arraydata-no-canonical-cast', 'types.py',
       "        array = orig.astype(dtype, copy=False)\n        if array.dtype != orig.dtype and not numpy.equal(array, orig).all():",
       "        array = orig\n        if False:",
       'array container keeps the width / byte order of the input', expect='H-|E-')
mutant('C17', 'lru-cache-no-eviction', 'types.py',
       "            cache[key] = v, [weakref.ref(base, popkey) for base in bases]\n",
       "            cache[key] = v, []\n",
       'buffer-keyed cache entries survive their buffer: stale result after the address is re-used', expect='C-stale-cache')
mutant('C17', 'no-type-tag', 'types.py',
       "    h = hashlib.sha1(t.__name__.encode()+b'\\0')\n    if data is Ellipsis or data is None:",
       "    h = hashlib.sha1(b'\\0')\n    if data is Ellipsis or data is None:",
       'values of different builtin types with equal representation collide', expect='H-collision')
mutant('C17', 'immutable-hash-without-module', 'types.py',
       "        h = hashlib.sha1('{}.{}:{}\\0'.format(type(self).__module__, type(self).__qualname__, type(self)._version).encode())\n",
       "        h = hashlib.sha1('{}:{}\\0'.format(type(self).__qualname__, type(self)._version).encode())\n",
       'same-named Immutable classes of two modules collide', expect='H-collision')
mutant('C17', 'dataclass-hash-without-module', 'types.py',
       "        h = hashlib.sha1(f'{type(self).__module__}.{type(self).__qualname__}\\0'.encode())\n",
       "        h = hashlib.sha1(f'{type(self).__qualname__}\\0'.encode())\n",
       'same-named DataClass classes of two modules collide', expect='H-collision')
mutant('C17', 'multiset-count-dropped', 'types.py',
       "        for item in sorted('{:04d}'.format(count).encode()+nutils_hash(item) for item, count in self.__items.items()):\n",
       "        for item in sorted(nutils_hash(item) for item, count in self.__items.items()):\n",
       'multisets that differ only in multiplicities collide', expect='H-collision')
mutant('C17', 'numpy-scalars-not-normalised', 'types.py',
       "        t = dict(b=bool, i=int, f=float, c=complex)[data.dtype.kind]\n        data = t(data)\n",
       "        pass\n",
       'numpy integers hash differently from (or cannot be hashed like) the equal Python int', expect='H-|E-')
mutant('C17', 'frozendict-items-unsorted', 'types.py',
       "        for item in sorted(nutils_hash(k)+nutils_hash(v) for k, v in self.items()):\n            h.update(item)\n        return h.digest()\n\n    def __reduce__(self):\n        return frozendict, (self.__base,)",
       "        for item in (nutils_hash(k)+nutils_hash(v) for k, v in self.items()):\n            h.update(item)\n        return h.digest()\n\n    def __reduce__(self):\n        return frozendict, (self.__base,)",
       'frozendict hash depends on insertion order', expect='H-')


def run_mutant(prop, m, tier='quick', keep=False):
    scratch = f'/dev/shm/vsim-mut-{os.getpid()}-{m["id"]}'
    shutil.rmtree(scratch, ignore_errors=True)
    src = os.path.join(scratch, 'src')
    shutil.copytree('/repo/src', src, ignore=shutil.ignore_patterns('__pycache__'))
    path = os.path.join(src, 'nutils', m['file'])
    text = open(path).read()
    if text.count(m['old']) != 1:
        shutil.rmtree(scratch, ignore_errors=True)
        return dict(id=m['id'], status='stale', detail=f'pattern occurs {text.count(m["old"])} times in {m["file"]}')
    open(path, 'w').write(text.replace(m['old'], m['new']))
    env = dict(os.environ, VSIM_NUTILS_SRC=src, VSIM_EVIDENCE_DIR=os.path.join(scratch, 'evidence'), VSIM_REPLAY_DIR=os.path.join(scratch, 'replays'), PYTHONDONTWRITEBYTECODE='1')
    if m.get('count'):
        env['VSIM_COUNT'] = str(m['count'])
    t0 = time.time()
    p = subprocess.run([batch.PY, batch.VSIM, 'check', prop, '--tier', tier], capture_output=True, env=env)
    out = p.stdout.decode()
    viol = [l for l in out.splitlines() if l.startswith('VIOLATION')]
    classes = [l.strip() for l in out.splitlines() if l.strip().startswith('class=')]
    status = 'killed' if p.returncode in (1, 2) and viol else ('harness-error' if p.returncode == 2 else 'survived')
    res = dict(id=m['id'], status=status, exit=p.returncode, also_harness_errors=(p.returncode == 2), classes=[c[:160] for c in classes[:4]], wall=round(time.time() - t0, 1), tail=out.splitlines()[-1:] if status != 'killed' else [])
    if status == 'harness-error':
        res['tail'] = out.splitlines()[-6:]
    if not keep:
        shutil.rmtree(scratch, ignore_errors=True)
    return res


def main(props, only=None, tier='quick'):
    props = props or sorted(M)
    allres = {}
    bad = 0
    for prop in props:
        for m in M.get(prop, []):
            if only and m['id'] != only:
                continue
            r = run_mutant(prop, m, tier)
            allres.setdefault(prop, []).append(r)
            print(json.dumps(dict(property=prop, **r)))
            sys.stdout.flush()
            if m.get('expect') == 'survive':
                r['expected'] = 'survive (benign change: the property still holds)'
                if r['status'] == 'killed':
                    bad += 1
            elif r['status'] != 'killed':
                bad += 1
    return 1 if bad else 0
