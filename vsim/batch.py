'''Batch driver: master spawns fresh-interpreter workers; workers fork one child per case.'''

import os, sys, json, time, traceback, subprocess, importlib, collections, hashlib, shutil, signal
from . import core, isolate

PROPS = {'C03': 'vsim.props.c03', 'C14': 'vsim.props.c14', 'C16': 'vsim.props.c16', 'C17': 'vsim.props.c17', 'C18': 'vsim.props.c18'}
PY = sys.executable
VSIM = os.path.join(core.VERIF, 'bin', 'vsim')
SCRATCH = f'/dev/shm/vsim-{os.getpid()}'
_nspawn = 0


def load(prop):
    return importlib.import_module(PROPS[prop])


def gen_case(mod, bseed, index, tier):
    rng = core.rng_for(bseed, mod.ID, index)
    case = mod.gen_case(rng, index, tier)
    case['_index'] = index
    case['_seed'] = core.seed_for(bseed, mod.ID, index)
    return case


# ---------------------------------------------------------------------- worker

def _safe(fn, case):
    try:
        return fn(case)
    except BaseException as e:
        return dict(verdict='harness', vclass='exception-in-harness', detail=''.join(traceback.format_exception(type(e), e, e.__traceback__))[-3000:])


def worker_main(prop, bseed, tier, start, stride, count, wall, indices=None):
    mod = load(prop)
    core.bootstrap()
    if hasattr(mod, 'worker_init'):
        mod.worker_init()
    import gc
    gc.collect()
    gc.freeze()   # children forked per case must not traverse (and copy-on-write) the whole inherited heap in their collections
    t0 = time.monotonic()
    timeout = getattr(mod, 'CASE_TIMEOUT', 60.0)
    out = sys.stdout
    it = indices if indices is not None else range(start, count, stride)
    chunk = max(1, int(getattr(mod, 'CHUNK', 1)))
    pending = []

    def flush():
        if not pending:
            return
        cases = [c for _, c in pending]
        if len(cases) == 1:
            rs = [isolate.run_isolated(mod.run_case, cases[0], timeout=timeout)]
        else:
            rs = isolate.run_isolated(lambda cs: [_safe(mod.run_case, c) for c in cs], cases, timeout=timeout + 10.0 * len(cases))
            if not isinstance(rs, list) or len(rs) != len(cases):
                # the chunk as a whole failed (time-out, crash): run its cases one by one
                rs = [isolate.run_isolated(mod.run_case, c, timeout=timeout) for c in cases]
            else:
                for k, r in enumerate(rs):
                    if r.get('verdict') in ('violation', 'harness'):
                        # what is reported must hold for the case run alone from pristine state
                        rs[k] = isolate.run_isolated(mod.run_case, cases[k], timeout=timeout)
                        rs[k]['rerun_alone_after_chunk'] = r.get('vclass')
        for (index, case), res in zip(pending, rs):
            res['_index'] = index
            res['_case_sha'] = core.sha(case)
            rc = res.pop('_resolved_case', None)
            if rc is not None:  # fault placement made concrete by the pilot run: this is what gets shrunk and replayed
                case = rc
            if res.get('verdict') in ('violation', 'harness') or res.get('keep_case'):
                res['_case'] = case
            out.write(json.dumps(res) + '\n')
        out.flush()
        pending.clear()
    for index in it:
        if time.monotonic() - t0 > wall:
            flush()
            out.write(json.dumps(dict(_stopped_at=index)) + '\n')
            break
        pending.append((index, gen_case(mod, bseed, index, tier)))
        if len(pending) >= chunk:
            flush()
    flush()
    return 0


# ---------------------------------------------------------------------- master

def _spawn(prop, bseed, tier, start, stride, count, wall, hashseed, indices=None):
    env = dict(os.environ)
    env['PYTHONHASHSEED'] = str(hashseed)
    env['VERIF_SEED'] = str(bseed)
    env['VSIM_SCRATCH'] = os.path.join(SCRATCH, 'cases')   # removed by the master together with SCRATCH
    env.setdefault('OMP_NUM_THREADS', '1')
    env.setdefault('OPENBLAS_NUM_THREADS', '1')
    env.setdefault('MKL_NUM_THREADS', '1')
    cmd = [PY, VSIM, 'worker', prop, '--tier', tier, '--start', str(start), '--stride', str(stride), '--count', str(count), '--wall', str(wall)]
    if indices is not None:
        cmd += ['--indices', ','.join(map(str, indices))]
    global _nspawn
    _nspawn += 1
    os.makedirs(SCRATCH, exist_ok=True)
    p = subprocess.Popen(cmd, stdout=open(os.path.join(SCRATCH, f'w{_nspawn}.out'), 'wb'), stderr=open(os.path.join(SCRATCH, f'w{_nspawn}.err'), 'wb'), env=env, start_new_session=True, cwd=core.VERIF)
    p._vsim_files = (os.path.join(SCRATCH, f'w{_nspawn}.out'), os.path.join(SCRATCH, f'w{_nspawn}.err'))
    return p


def run_batch(prop, tier, nworkers=None, count=None, wall=None, selfcheck=None):
    mod = load(prop)
    bseed = core.batch_seed()
    budget = mod.budget(tier)
    count = count or int(os.environ.get('VSIM_COUNT', 0)) or budget['n']
    wall = wall or float(os.environ.get('VSIM_WALL', 0)) or budget['wall']
    nworkers = nworkers or int(os.environ.get('VSIM_WORKERS', 0)) or max(2, min(14, (os.cpu_count() or 4) - 2))
    ndup = budget.get('dup', 32) if selfcheck is None else selfcheck
    t0 = time.time()
    procs = [_spawn(prop, bseed, tier, w, nworkers, count, wall, 0) for w in range(nworkers)]
    dup_indices = list(range(min(ndup, count)))
    dups = [_spawn(prop, bseed, tier, 0, 1, count, wall, 31337, indices=dup_indices[k::2]) for k in range(2)] if dup_indices else []
    results = []
    stopped = []
    errs = []
    hard_deadline = wall * 3 + 120

    def collect(plist):
        got = []
        for p in plist:
            try:
                p.wait(timeout=max(1, hard_deadline - (time.time() - t0)))
            except subprocess.TimeoutExpired:
                try:
                    os.killpg(p.pid, signal.SIGKILL)
                except ProcessLookupError:
                    pass
                p.wait()
                errs.append('worker exceeded hard deadline')
            o = open(p._vsim_files[0], 'rb').read()
            e = open(p._vsim_files[1], 'rb').read()
            if p.returncode != 0:
                errs.append(f'worker exit {p.returncode}: {e.decode(errors="replace")[-1500:]}')
            for line in o.decode().splitlines():
                if not line.strip():
                    continue
                try:
                    got.append(json.loads(line))
                except Exception:
                    errs.append(f'unparsable worker output: {line[:200]}')
        return got
    main = collect(procs)
    dup = collect(dups)
    for r in main:
        if '_stopped_at' in r:
            stopped.append(r['_stopped_at'])
        else:
            results.append(r)
    dup = [r for r in dup if '_stopped_at' not in r]
    wall_s = time.time() - t0
    shutil.rmtree(SCRATCH, ignore_errors=True)
    return dict(mod=mod, tier=tier, bseed=bseed, results=results, dup=dup, stopped=stopped, errs=errs, wall_s=wall_s, count=count, nworkers=nworkers)


def determinism_diff(results, dup):
    byidx = {r['_index']: r for r in results}
    bad = []
    n = 0
    for d in dup:
        r = byidx.get(d['_index'])
        if r is None:
            continue
        n += 1
        for key in ('_case_sha', 'verdict', 'vclass', 'digest'):
            if r.get(key) != d.get(key):
                bad.append(dict(index=d['_index'], key=key, a=r.get(key), b=d.get(key)))
    return n, bad
