'''Program templates (JSON spec -> evaluable expressions + argument arrays).

Used by C16 (parallel loops) and C03 (call histories).  Data are small dyadic
rationals so that sums and products are exact in float64 and the parallel
result must be bit-identical to the serial one whatever the summation order.
'''

import numpy, random


def _data(rng, shape, dtype, lo=-8, hi=8):
    n = int(numpy.prod(shape)) if shape else 1
    if dtype == 'int':
        vals = [rng.randint(1, 9) * rng.choice((-1, 1)) for _ in range(n)]
        return numpy.array(vals, dtype=int).reshape(shape)
    vals = [rng.randint(1, 31) * rng.choice((-1, 1)) / 8 for _ in range(n)]
    a = numpy.array(vals, dtype=float).reshape(shape)
    if dtype == 'complex':
        im = numpy.array([rng.randint(1, 31) * rng.choice((-1, 1)) / 8 for _ in range(n)], dtype=float).reshape(shape)
        return a + 1j * im
    return a


_PYT = {'int': int, 'float': float, 'complex': complex}


def build(prog):
    '''Returns (funcs, args) for a program spec.  `funcs` is an evaluable or nested tuple.'''
    from nutils import evaluable as ev
    fam = prog['family']
    n = int(prog.get('n', 3))
    m = int(prog.get('m', 2))
    dt = prog.get('dtype', 'float')
    T = _PYT[dt]
    rng = random.Random(prog.get('dseed', 0))
    c = ev.constant
    args = {}

    def arg(name, shape, dtype=dt):
        a = ev.Argument(name, tuple(c(s) for s in shape), _PYT[dtype])
        args[name] = _data(rng, shape, dtype)
        return a

    def const(shape, dtype=dt):
        return c(_data(rng, shape, dtype))

    i = ev.loop_index('i', n)
    if fam == 'P1':  # LoopSum, dense accumulate
        X = arg('x', (n, m))
        row = ev.get(X, 0, i)
        w = const((m,))
        f = ev.loop_sum(row * row + w, i)
        if prog.get('scalar'):
            f = ev.loop_sum(ev.Sum(row * w), i)
        return f, args
    if fam == 'P2':  # LoopSum(Inflate) -> add.at
        L = int(prog.get('L', 4))
        X = arg('x', (n, m))
        D = c(numpy.array([[rng.randrange(L) for _ in range(m)] for _ in range(n)], dtype=int).reshape(n, m))
        row = ev.get(X, 0, i)
        dof = ev.get(D, 0, i)
        f = ev.loop_sum(ev._inflate(row, dof, c(L), 0), i)
        return f, args
    if fam == 'P3':  # LoopConcatenate with loop dependent chunk sizes
        X = arg('x', (n, m))
        row = ev.get(X, 0, i)
        chunk = ev.astype(ev.Range(i + 1), T) * ev.InsertAxis(ev.Sum(row), i + 1) if dt != 'int' else ev.Range(i + 1) * ev.InsertAxis(ev.Sum(row), i + 1)
        f = ev.loop_concatenate(chunk, i)
        return f, args
    if fam == 'P4':  # several outputs sharing a loop and subterms
        X = arg('x', (n, m))
        Y = arg('y', (n, m))
        a = ev.get(X, 0, i)
        b = ev.get(Y, 0, i)
        ab = a * b
        f1 = ev.loop_sum(ab, i)
        f2 = ev.loop_sum(ev.Sum(ab) * a, i)
        f3 = ev.loop_concatenate(ab + a, i)
        f4 = ev.loop_sum(ev.Sum(a), i)
        return (f1, (f2, f3), f4), args
    if fam == 'P5':  # nested loops: inner accumulators must be private
        k = int(prog.get('k', 2))
        Y = arg('y', (n, k, m))
        j = ev.loop_index('j', k)
        yi = ev.get(Y, 0, i)
        inner = ev.loop_sum(ev.get(yi, 0, j) * ev.get(yi, 0, j), j)
        f = ev.loop_sum(inner * ev.get(ev.get(Y, 0, i), 0, c(0)), i)
        g = ev.loop_concatenate(ev.loop_sum(ev.get(yi, 0, j), j), i)
        return (f, g), args
    if fam == 'P6':  # a second outer loop reading the first loop's shared result
        n2 = int(prog.get('n2', 3))
        X = arg('x', (n, m))
        Z = arg('z', (n2, m))
        s = ev.loop_sum(ev.get(X, 0, i), i)
        k = ev.loop_index('k', n2)
        f = ev.loop_sum(s * ev.get(Z, 0, k), k)
        g = ev.loop_concatenate(ev.InsertAxis(ev.Sum(s * ev.get(Z, 0, k)), c(1)), k)
        return (f, g, s), args
    if fam == 'P7':  # fused independent loops of equal length
        X = arg('x', (n, m))
        Y = arg('y', (n, m))
        j = ev.loop_index('j', n)
        f = ev.loop_sum(ev.get(X, 0, i), i)
        g = ev.loop_sum(ev.get(Y, 0, j) * ev.get(Y, 0, j), j)
        h = ev.loop_concatenate(ev.get(Y, 0, j), j)
        return (f, g, h), args
    if fam == 'P9':  # loop dependent shapes scattered into a fixed array
        L = n + 1
        X = arg('x', (n,))
        xi = ev.get(X, 0, i)
        r = ev.Range(i + 1)
        vals = (ev.astype(r, T) if dt != 'int' else r) * ev.InsertAxis(xi, i + 1)
        f = ev.loop_sum(ev._inflate(vals, r, c(L), 0), i)
        return f, args
    if fam == 'P10':  # constant loop next to an argument dependent one (cache_const_intermediates)
        C = const((n, m))
        X = arg('x', (n, m))
        fc = ev.loop_sum(ev.get(C, 0, i) * ev.get(C, 0, i), i)
        fx = ev.loop_sum(ev.get(X, 0, i) * fc, i)
        fcc = ev.loop_concatenate(ev.get(C, 0, i), i)
        return (fc, fx, fcc), args
    if fam == 'P15':  # in-place accumulation through views of the shared accumulator: transposed and diagonal terms of a sum
        k = int(prog.get('k', 2))
        X = arg('x', (n, m, k))
        Y = arg('y', (n, k, m))
        D = arg('d', (n, m))
        Z = arg('z', (n, m, m))
        f = ev.loop_sum(ev.Transpose(ev.get(X, 0, i), (1, 0)) + ev.get(Y, 0, i), i)
        g = ev.loop_sum(ev.diagonalize(ev.get(D, 0, i)) + ev.get(Z, 0, i), i)
        h = ev.loop_sum(ev.Transpose(ev.get(Z, 0, i), (1, 0)) * ev.get(Z, 0, i) + ev.diagonalize(ev.get(D, 0, i) * ev.get(D, 0, i)), i)
        return (f, g, h), args
    if fam == 'P14':  # a body that raises at iteration k (data driven out-of-range index)
        X = arg('x', (n, m))
        sel = ev.Argument('sel', (c(n),), int)
        bad = int(prog.get('bad', -1))
        s = numpy.array([rng.randrange(m) for _ in range(n)], dtype=int)
        if 0 <= bad < n:
            s[bad] = m + 3
        args['sel'] = s
        row = ev.get(X, 0, i)
        pick = ev.Take(row, ev.get(sel, 0, i))
        f = ev.loop_sum(ev.InsertAxis(pick, c(2)) * row[:2] if False else ev.InsertAxis(pick, c(m)) * row, i)
        g = ev.loop_concatenate(ev.InsertAxis(pick, c(1)), i)
        return (f, g), args
    if fam == 'P16':  # a loop concatenation added to / nested in other terms: slices of a shared array receive in-place additions and copies
        X = arg('x', (n, m))
        B = arg('b', (n * m,))
        row = ev.get(X, 0, i)
        cat = ev.loop_concatenate(row * row, i)
        f = cat + B                      # Add with a LoopConcatenate operand: compile_with_out into the slices
        j = ev.loop_index('j', n)
        g = ev.loop_sum(ev.loop_concatenate(ev.get(X, 0, i) * ev.InsertAxis(ev.Sum(ev.get(X, 0, j)), c(m)), i), j) if prog.get('nest') else ev.loop_concatenate(ev.InsertAxis(row, c(2)), i)
        return (f, g, cat), args
    if fam == 'P17':  # matrix-like assembly: scatter through two index arrays and a diagonal, all into shared accumulators
        L = int(prog.get('L', 4))
        X = arg('x', (n, m, m))
        V = arg('v', (n, m))
        D = c(numpy.array([[rng.randrange(L) for _ in range(m)] for _ in range(n)], dtype=int).reshape(n, m))
        dof = ev.get(D, 0, i)
        blk = ev.get(X, 0, i)
        A = ev.loop_sum(ev._inflate(ev._inflate(blk, dof, c(L), 1), dof, c(L), 0), i)
        d = ev.loop_sum(ev.diagonalize(ev._inflate(ev.get(V, 0, i), dof, c(L), 0)), i)
        return (A, d, A + d), args
    if fam == 'P18':  # the loop length and the chunk sizes depend on an argument
        N = ev.InRange(ev.Argument('N', (), int), c(n + 1))
        args['N'] = numpy.array(int(prog.get('nrun', n)))
        k = ev.loop_index('k', N)
        X = arg('x', (n + 1, m))
        row = ev.get(X, 0, k)
        f = ev.loop_sum(row * row, k)
        g = ev.loop_concatenate(ev.InsertAxis(ev.Sum(row), k + 1), k)
        if prog.get('constbody'):
            # loops whose BODY is free of arguments while their length is not: they are not constants
            C = const((n + 1, m))
            crow = ev.get(C, 0, k)
            return (f, g, ev.loop_sum(crow * crow, k), ev.loop_concatenate(crow, k)), args
        return (f, g), args
    if fam == 'P19':  # two consecutive outer loops of different length sharing one accumulator chain, plus a loop whose result feeds an index
        n2 = int(prog.get('n2', 3))
        X = arg('x', (n, m))
        Z = arg('z', (n2, m))
        k = ev.loop_index('k', n2)
        s1 = ev.loop_sum(ev.get(X, 0, i), i)
        s2 = ev.loop_sum(ev.get(Z, 0, k) * s1, k)
        cnt = ev.loop_sum(ev.astype(ev.Greater(ev.Sum(ev.get(Z, 0, k)), ev.astype(c(0), T if dt != 'complex' else float)), int) if dt != 'complex' else c(1), k)   # integer result of a parallel loop
        tot = s1 + s2
        return (tot, cnt, ev.InsertAxis(tot, c(2)), s2 * ev.astype(cnt, T)), args
    if fam == 'P20':  # nested concatenations: the inner loop runs privately inside a worker, its result is copied into a shared slice
        k = int(prog.get('k', 2))
        Y = arg('y', (n, k, m))
        j = ev.loop_index('j', k)
        yi = ev.get(Y, 0, i)
        inner = ev.loop_concatenate(ev.get(yi, 0, j) * ev.get(yi, 0, j), j)      # shape (k*m,)
        f = ev.loop_concatenate(inner, i)
        g = ev.loop_sum(inner, i)
        h = ev.loop_concatenate(ev.InsertAxis(ev.loop_sum(ev.Sum(ev.get(yi, 0, j)), j), c(1)), i)
        return (f, g, h), args
    if fam == 'P21':  # nested loops whose OUTER length is known only at run time (0, 1 or more iterations): whether the outer loop forks is decided per call
        k = int(prog.get('k', 2))
        N = ev.InRange(ev.Argument('N', (), int), c(n + 1))
        args['N'] = numpy.array(int(prog.get('nrun', 1)))
        io = ev.loop_index('i', N)
        Y = arg('y', (n + 1, k, m))
        j = ev.loop_index('j', k)
        yi = ev.get(Y, 0, io)
        inner = ev.loop_sum(ev.get(yi, 0, j) * ev.get(yi, 0, j), j)
        f = ev.loop_sum(inner * inner, io)
        g = ev.loop_concatenate(ev.loop_sum(ev.get(yi, 0, j), j), io)
        h = ev.loop_sum(ev.loop_concatenate(ev.get(yi, 0, j), j), io)
        return (f, g, h), args
    raise ValueError(f'unknown family {fam}')


def gen_prog(rng, families, small=False):
    fam = rng.choice(families)
    prog = dict(family=fam, n=rng.choice([0, 1, 2, 3, 3, 5, 5, 8]) if not small else rng.choice([2, 3]), m=rng.choice([0, 1, 1, 2, 2, 3, 3]),
                dtype=rng.choice(['float', 'float', 'int', 'complex']), dseed=rng.randrange(1 << 30))
    if fam == 'P1':
        prog['scalar'] = rng.random() < 0.3
    if fam == 'P2':
        prog['L'] = rng.choice([1, 2, 4, 6])
    if fam in ('P5', 'P15', 'P20'):
        prog['k'] = rng.choice([1, 2, 3])
    if fam == 'P16':
        prog['nest'] = rng.random() < 0.5
    if fam == 'P17':
        prog['L'] = rng.choice([1, 2, 4, 6])
    if fam == 'P18':
        prog['nrun'] = rng.randint(0, prog['n'])
        prog['constbody'] = rng.random() < 0.5
    if fam == 'P21':
        prog['n'] = max(prog['n'], 1)
        prog['nrun'] = min(prog['n'], rng.choice([0, 1, 1, 1, 2, prog['n']]))
        prog['k'] = rng.choice([2, 3, 5])
    if fam in ('P6', 'P19'):
        prog['n2'] = rng.choice([1, 2, 3, 5])
    if fam == 'P14':
        prog['n'] = max(prog['n'], 2)
        prog['m'] = max(prog['m'], 1)
        prog['bad'] = rng.randrange(prog['n']) if rng.random() < 0.7 else -1
    return prog
