'''`vsim setup`: nothing to build (pure Python, interpreter /venv/bin/python); verify that what the checks need is present, offline.'''
import os, sys


def main():
    from . import core
    core.bootstrap()
    import numpy, treelog, nutils
    os.makedirs(os.path.join(core.VERIF, 'evidence'), exist_ok=True)
    os.makedirs(os.path.join(core.VERIF, 'replays'), exist_ok=True)
    assert hasattr(os, 'fork'), 'fork is required'
    assert os.path.isdir('/dev/shm'), '/dev/shm (tmpfs) is used for scratch'
    print(f'vsim setup ok: python {sys.version.split()[0]}, numpy {numpy.__version__}, nutils from {os.path.dirname(nutils.__file__)}')
    return 0
