'''C18 - disk memoisation is transparent and crash-tolerant (procsim + simulated file layer).  DESIGN.md 6.'''

import os, sys, json, copy, pickle, shutil, zlib, random, traceback, io
import numpy
from .. import core, procsim, filesim, shrink
from ..procsim import K

ID = 'C18'
LEVEL = 'fault_enumeration'
CASE_TIMEOUT = 180.0
CHUNK = 2
RULE = ('two kinds of seeded cases. history: 1-4 epochs of 1-3 caller processes (real forks under the baton scheduler, fresh per epoch so only the cache directory survives) '
        'performing memoised calls / partial iterations of resumable recursions through the real nutils.cache code on an instrumented file layer, with faults: process killed in the middle of a write() '
        'after a chosen number of bytes, killed at a chosen file operation, wrapped function raising (always or once), consumer abandoning an iteration, ENOSPC/EIO, pre-existing empty/truncated/bogus/old-format entries. '
        'enum: the byte stream of every cache entry written by a fault-free run is recorded, then for EVERY byte offset of every entry (all offsets for entries up to 4000 bytes, else all offsets in the first and last 400 bytes, '
        'around every write() boundary and a seeded sample) the directory is put in the state a kill at that offset leaves and the call is repeated twice and compared with the uncached model. '
        'distinct = SHA-1 of the event log (history) or (operation, entry file ordinal, offset) (enum); non-trivial = at least one entry was served from cache or recomputed after a fault. killsweep: one caller is killed at EVERY one of its yield points in turn (every file operation, lock request, entry to and exit from the wrapped function; within a wall budget), a fresh process then repeats the operations')
ASSUMPTIONS = [
    '"killed" means SIGKILL of the process: completed write()s survive (page cache), nothing after the kill instant happens; power loss / lost or reordered writes are outside the statement and not injected',
    'flock has kernel semantics in the stub: exclusive per file, released on close and on process death',
    'the wrapped functions are deterministic in their arguments (the documented precondition); transient failures are injected as exceptions, not as different return values',
    'entries pickle to the same bytes in every process (byte-unstable payloads are not part of the deciding configuration)',
    'tmpfs and pickle are trusted',
]
REAL_VS_STUB = {
    'real': ['nutils.cache.function wrapper incl. key derivation, _lock_file_fcntl, pickle.load/dump, RecordLog replay, disable() nesting', 'nutils.cache.Recursion.__iter__', 'enable/disable/caching', 'real files on tmpfs (unbuffered)', 'real forked caller processes, real SIGKILL'],
    'stub': ['fcntl.flock (scheduler lock table)', 'pathlib.Path.open/touch/mkdir (instrumented pass-through)', 'choice of which process runs', 'fault injection'],
}


def budget(tier):
    if tier == 'quick':
        return dict(n=360, wall=75, dup=24)
    return dict(n=9000, wall=1500, dup=100)


def _scratch():
    base = os.environ.get('VSIM_SCRATCH') or f'/dev/shm/vsim-scratch-{os.getppid()}'
    d = os.path.join(base, f'c18-{os.getpid()}')
    shutil.rmtree(d, ignore_errors=True)
    os.makedirs(d, exist_ok=True)
    return d


def _unscratch(d):
    shutil.rmtree(d, ignore_errors=True)
    try:
        os.rmdir(os.path.dirname(d))   # the base, if this was its last case (stand-alone runs)
    except OSError:
        pass


# ---------------------------------------------------------------------- generation

def gen_op(rng, small=False):
    r = rng.random()
    if r < 0.07:
        return dict(t='call', f='sys_solve', args=[rng.choice([2, 3]), rng.choice([0, 1]), rng.random() < 0.5], kw=({} if rng.random() < 0.4 else {'method': rng.choice(['direct', 'newton', 'reuse', 'linesearch', 'pseudotime'])}))
    if r < 0.62:
        f = rng.choice(['f_scalar', 'f_scalar', 'f_dict', 'f_nutils', 'f_kw', 'f_kw', 'f_fails', 'f_nested', 'f_silent', 'f_arr', 'f_arr'] + ([] if small else ['f_big']))
        if f == 'f_arr':
            from . import c18_funcs as F
            return dict(t='call', f=f, args=[{'arr': [rng.choice(sorted(F._BASES)), rng.choice(F.ARR_VARIANTS)]}], kw=({} if rng.random() < 0.7 else {'w': rng.choice([1, 2])}))
        if f == 'f_scalar':
            a = rng.choice([1, 2, 0, 1])
            form = rng.randrange(4)
            if form == 0:
                return dict(t='call', f=f, args=[a], kw={})
            if form == 1:
                return dict(t='call', f=f, args=[a, rng.choice([2, 3])], kw={})
            if form == 2:
                return dict(t='call', f=f, args=[a], kw={'y': rng.choice([2, 3])})
            return dict(t='call', f=f, args=[], kw={'x': a, 'y': 2})
        if f == 'f_kw':
            kw = {}
            if rng.random() < 0.6:
                kw['b'] = rng.choice([1, 7])
            if rng.random() < 0.6:
                kw['c'] = rng.choice([2, 7])
            return dict(t='call', f=f, args=[rng.choice([1, 2])], kw=kw)
        if f == 'f_big':
            return dict(t='call', f=f, args=[rng.choice([1, 2])], kw={})
        if f == 'f_dict':
            return dict(t='call', f=f, args=[rng.choice([0, 3, 5])], kw={})
        return dict(t='call', f=f, args=[rng.choice([1, 2, 3])], kw={})
    rname = rng.choice(['Fib', 'Fib', 'Count', 'Tri', 'Held', 'Free'] + ([] if small else ['Big']))
    if rname == 'Free':   # recursion of length 0
        return dict(t='iter', r='Free', args=[rng.choice([2, 7])], m=rng.choice([1, 2, 3, 4, 5]))
    if rname == 'Big':
        return dict(t='iter', r='Big', args=[rng.choice([1, 2])], m=rng.choice([1, 2, 3]))
    if rname == 'Held':
        return dict(t='iter', r='Held', args=[rng.choice([1, 4])], m=rng.choice([1, 2, 3, 4, 5]))
    if rname == 'Fib':
        args = [rng.choice([0, 1]), 1]
    elif rname == 'Count':
        args = [rng.choice([0, 1, 2, 3, 4]), rng.choice([1.0, 0.5])]
    else:
        args = [rng.choice([1, 5])] + ([2] if rng.random() < 0.5 else [])
    return dict(t='iter', r=rname, args=args, m=rng.choice([0, 1, 2, 3, 4, 5, 6]))


def gen_case(rng, index, tier):
    if rng.random() < (0.08 if tier == 'thorough' else 0.04):
        ops = [gen_op(rng, small=True) for _ in range(rng.choice([1, 1, 2]))]
        for op in ops:
            if op['t'] == 'iter':
                op['m'] = min(op['m'], 3)
        return dict(mode='killsweep', ops=ops, budget_s=30 if tier == 'thorough' else 15)
    if rng.random() < 0.4:
        op = gen_op(rng, small=rng.random() < (0.5 if tier == 'thorough' else 0.8))
        if rng.random() < 0.08:
            op = dict(t='iter', r='Big', args=[rng.choice([1, 2])], m=rng.choice([1, 2, 3]))   # items written in several write() calls (pickle frames)
        while op.get('f') == 'f_fails':
            op = gen_op(rng, small=True)
        return dict(mode='enum', op=op, eseed=rng.randrange(1 << 30), over=rng.choice(['empty', 'empty', 'old_fail', 'bogus_long']))
    if rng.random() < 0.25:
        # contention: three (or two) callers ask for the SAME entry at once, often with a wrapped function that fails (once or always)
        op = rng.choice([dict(t='call', f='f_fails', args=[rng.choice([1, 2])], kw={}), dict(t='call', f='f_scalar', args=[rng.choice([1, 2])], kw={}),
                         dict(t='call', f='f_dict', args=[3], kw={}), dict(t='iter', r='Count', args=[2, 1.0], m=3), gen_op(rng, small=True)])
        ncallers = rng.choice([2, 3, 3, 3])
        callers = [dict(ops=[copy.deepcopy(op) for _ in range(rng.choice([1, 1, 2]))], io=None, delay=rng.choice([0, 0, 3, 6, 9, 12, 15, 20])) for _ in range(ncallers)]
        epochs = [dict(callers=callers, pre=[])]
        if rng.random() < 0.4:
            epochs.append(dict(callers=[dict(ops=[copy.deepcopy(op)], io=None)], pre=[]))
        from . import c16
        if rng.random() < 0.6:
            # explicit schedule in long segments: one caller runs for a while, then another
            tape = []
            for _ in range(rng.choice([4, 8, 12])):
                tape += [rng.randrange(0, ncallers + 1)] * rng.choice([1, 2, 4, 7, 11, 16])
            sched = dict(kind='abs', tape=tape)
        else:
            sched = c16.gen_sched(rng)
        work = rng.choice([0, 2, 5, 9])
        if rng.random() < 0.25:
            # a stalled node: one caller (often the one that holds the entry) runs only when nobody else can - time-outs and retries
            # of the others, if there are any, play out against it
            sched = dict(kind='starve', victim=rng.choice([-2, -2, rng.randrange(1, ncallers + 1)]), tape=[(rng.randint(1, 6) if rng.random() < 0.3 else 0) for _ in range(200)])
            work = rng.choice([3, 5, 9])
        elif rng.random() < 0.4:
            # staggered arrivals in lock step: the second caller arrives while the first computes, the third after the first is done
            sched = dict(kind='rr')
            stag = [0, rng.choice([2, 3, 4, 5, 6]), rng.choice([8, 10, 12, 14, 16, 18, 20, 24, 28])]
            for c, d in zip(callers, stag):
                c['delay'] = d
            work = rng.choice([3, 5, 9])
        return dict(mode='history', epochs=epochs, sched=sched, faults=[], func_fail_at=rng.choice([[], [1], [1], [1, 2], [2]]), gran='sync', work=work)
    if rng.random() < 0.12:
        # one function called with every member of a class of arguments that are EQUAL for Python but are different values (other type, other
        # sign of zero), all in one process, in a seeded order, then again by a fresh process
        cls = rng.choice([[0, 0.0, -0.0, False], [1, 1.0, True]])
        f = rng.choice(['f_scalar', 'f_scalar', 'f_kw'])
        mk = (lambda a: dict(t='call', f='f_scalar', args=[a], kw={})) if f == 'f_scalar' else (lambda a: dict(t='call', f='f_kw', args=[1], kw={'b': a}))
        epochs = []
        for e in range(rng.choice([1, 2])):
            callers = []
            for c in range(rng.choice([1, 1, 2])):
                order = [mk(a) for a in cls]
                rng.shuffle(order)
                callers.append(dict(ops=order[:rng.choice([2, 3, 4])], io=None))
            epochs.append(dict(callers=callers, pre=[]))
        from . import c16
        return dict(mode='history', epochs=epochs, sched=c16.gen_sched(rng), faults=[], func_fail_at=[], gran='sync')
    # a small pool of operations so that callers collide on keys
    pool = [gen_op(rng, small=rng.random() < 0.9) for _ in range(rng.choice([1, 2, 2, 3]))]
    twin = twin2 = None
    if rng.random() < 0.6:
        # a near-collision: same function / recursion, one argument changed (keys must differ, results must not leak)
        v = copy.deepcopy(rng.choice(pool))
        if v['t'] == 'call':
            if v['f'] == 'f_kw':
                v['kw'][rng.choice(['b', 'c'])] = rng.choice([3, 7, 9])
            elif v['f'] == 'f_scalar' and rng.random() < 0.5:
                # an argument that is EQUAL for Python but another value: other numeric type, other sign of zero (result type / log line differ)
                def other(x):
                    return rng.choice([float(x), bool(x) if x in (0, 1) else float(x), -0.0 if x == 0 else float(x)])
                if v['args']:
                    v['args'][0] = other(v['args'][0])
                elif 'x' in v['kw']:
                    v['kw']['x'] = other(v['kw']['x'])
            elif v['f'] == 'f_scalar':
                if v['kw'].get('y') is not None or len(v['args']) < 2:
                    v['kw'] = dict(v['kw'], y=rng.choice([3, 4]))
                    if len(v['args']) > 1:
                        v['args'] = v['args'][:1]
                else:
                    v['args'][1] = rng.choice([4, 5])
            elif v['f'] == 'f_arr':
                from . import c18_funcs as F
                v['args'][0] = {'arr': [v['args'][0]['arr'][0], rng.choice([x for x in F.ARR_VARIANTS if x != v['args'][0]['arr'][1]])]}
            elif v['args']:
                v['args'][0] = v['args'][0] + 1
        else:
            v['args'][-1] = v['args'][-1] + 1
        pool.append(v)
        twin = v
        if v['t'] == 'call' and v['f'] == 'f_scalar' and rng.random() < 0.7:
            # a second twin: all pairs among int / float / bool / signed zero that are equal for Python should meet
            w = copy.deepcopy(v)
            x = w['args'][0] if w['args'] else w['kw'].get('x', 1)
            alts = [a for a in (int(x), float(x), (bool(x) if x in (0, 1) else float(x) + 0.0), (-0.0 if x == 0 else float(x))) if core.canon(a) != core.canon(x)]
            if alts:
                y = rng.choice(alts)
                if w['args']:
                    w['args'][0] = y
                else:
                    w['kw']['x'] = y
                pool.append(w)
                twin2 = w
    for v in list(pool):
        if v['t'] == 'iter' and rng.random() < 0.35:
            w = copy.deepcopy(v)
            if rng.random() < 0.6:
                n0, n1 = rng.choice([1, 2, 3, 4]), rng.choice([1, 2, 3, 4])
                pat = [0] * n0 + [1] * n1
                rng.shuffle(pat)
                if rng.random() < 0.5:
                    pat = ([0] + [0, 1] * max(n0, n1))[:n0 + n1 + 1]    # zip(r, islice(r, 1, None)): one iterator runs one item ahead
                w['pat'] = pat
                w['m'] = pat.count(0)
            else:
                w['keep'] = True
            pool.append(w)
    nepochs = rng.choice([1, 2, 2, 3, 3, 4] + ([5, 6] if tier == 'thorough' else []))
    epochs = []
    slot = 1
    faults = []
    for e in range(nepochs):
        ncallers = rng.choice([1, 1, 2, 2, 3])
        callers = []
        for c in range(ncallers):
            ops = []
            for _ in range(rng.choice([1, 2, 2, 3, 4])):
                op = copy.deepcopy(rng.choice(pool))
                if op['t'] == 'iter' and not op.get('pat') and rng.random() < 0.5:
                    op['m'] = rng.choice([0, 1, 2, 3, 4, 5, 6])
                ops.append(op)
            caller = dict(ops=ops, io=None)
            r = rng.random()
            if r < 0.22:
                caller['io'] = dict(kind='CRASH_W', w=rng.choice([1, 1, 1, 2, 2, 3, 4]), u=rng.choice([0.0, 1.0, rng.random(), rng.random(), rng.random()]))
            elif r < 0.30:
                caller['io'] = dict(kind='ENOSPC', w=rng.choice([1, 1, 2, 3]), u=rng.random())
            elif r < 0.36:
                caller['io'] = dict(kind='EIO', b=rng.choice([1, 1, 2, 3, 4]))
            elif r < 0.50:
                yk = rng.choice(['FTOUCH', 'FOPEN', 'FLOCK', 'FSEEK', 'FREAD', 'FWRITE', 'FCLOSE', 'ENTER', 'LEAVE', 'ANY', 'ANY'])
                faults.append(dict(kind='KILL', proc=slot, ykind=yk, n=rng.choice([1, 1, 2, 2, 3, 5, 9]) if yk != 'ANY' else rng.randint(1, 40)))
            callers.append(caller)
            slot += 1
        pre = []
        if e > 0 and rng.random() < 0.35:
            pre.append(dict(which=rng.randrange(0, 12), kind=rng.choice(['empty', 'truncate', 'truncate', 'bogus', 'old_ok', 'old_fail']), u=rng.random()))
        epochs.append(dict(callers=callers, pre=pre))
    if twin is not None and twin['t'] == 'call' and rng.random() < 0.6:
        # the near-collision twin and an operation on the same function in ONE process, back to back (whatever that process remembers between
        # calls must not leak from one to the other)
        same = [o for o in pool if o is not twin and o['t'] == 'call' and o['f'] == twin['f']]
        if same:
            pair = [copy.deepcopy(rng.choice(same)), copy.deepcopy(twin)] + ([copy.deepcopy(twin2)] if twin2 is not None else [])
            rng.shuffle(pair)
            c = rng.choice(rng.choice(epochs)['callers'])
            c['ops'] = pair + c['ops'][:1]
    func_fail_at = sorted(set(rng.randint(1, 8) for _ in range(rng.choice([0, 0, 0, 1, 2]))))
    from . import c16
    return dict(mode='history', epochs=epochs, sched=c16.gen_sched(rng), faults=faults, func_fail_at=func_fail_at,
                gran='sync')


# ---------------------------------------------------------------------- helpers

class Transcript:
    '''treelog logger recording effective messages: (context path, level, text); cache debug chatter is kept apart.'''

    def __init__(self):
        self.ctx = []
        self.msgs = []
        self.cache_debug = []

    def pushcontext(self, title):
        self.ctx.append(str(title))

    def popcontext(self):
        if self.ctx:
            self.ctx.pop()

    def recontext(self, title):
        if self.ctx:
            self.ctx[-1] = str(title)
        else:
            self.ctx.append(str(title))

    def write(self, msg, level):
        text = str(msg)
        if text.startswith('[cache.'):
            self.cache_debug.append(text)
        else:
            self.msgs.append(['/'.join(self.ctx), getattr(level, 'name', str(level)), text])


def deep_equal(a, b):
    if type(a) is not type(b):
        return False
    if isinstance(a, numpy.ndarray):
        return a.dtype == b.dtype and a.shape == b.shape and numpy.array_equal(a, b)
    if isinstance(a, (tuple, list)):
        return len(a) == len(b) and all(deep_equal(x, y) for x, y in zip(a, b))
    if isinstance(a, dict):
        return a.keys() == b.keys() and all(deep_equal(a[k], b[k]) for k in a)
    try:
        from nutils import types
        if isinstance(a, types.frozendict):
            return deep_equal(dict(a), dict(b))
    except Exception:
        pass
    r = a == b
    if isinstance(r, numpy.ndarray):
        return bool(r.all())
    return bool(r)


_KEPT = []


def perform(op, cachedir):
    '''Execute one operation through nutils' public API.  cachedir None = caching disabled (the model).'''
    import treelog, contextlib
    from nutils import cache
    from . import c18_funcs as F
    tr = Transcript()
    ctx = cache.enable(cachedir) if cachedir else cache.disable()
    with treelog.set(tr), ctx:
        try:
            if op['t'] == 'call':
                v = F.FUNCS[op['f']](*[F.decode_arg(a) for a in op['args']], **{k: F.decode_arg(v) for k, v in op['kw'].items()})
                rec = ['value', v]
            elif op.get('pat'):
                # two iterators over the same recursion alive at the same time in one consumer, advanced in the order given by `pat`
                # (pairing consecutive items, look-ahead): each must deliver the uncached prefix
                its = [iter(F.RECS[op['r']](*op['args'])), iter(F.RECS[op['r']](*op['args']))]
                out = [[], []]
                dead = [False, False]
                for w in op['pat']:
                    if dead[w]:
                        continue
                    try:
                        out[w].append(next(its[w]))
                    except StopIteration:
                        dead[w] = True
                for it in its:
                    it.close()
                rec = ['items', out[0] + ['|'] + out[1]]
            else:
                it = iter(F.RECS[op['r']](*op['args']))
                items = []
                try:
                    for _ in range(op['m']):
                        items.append(next(it))
                except StopIteration:
                    pass
                if op.get('keep'):
                    _KEPT.append(it)   # the consumer does not finish with its iterator: it stays suspended after the last item taken, until the process ends
                else:
                    it.close()
                rec = ['items', items]
        except procsim.SimDeadlock:
            raise
        except procsim.SimLivelock:
            raise
        except Exception as e:
            rec = ['raise', type(e).__name__, str(e)[:200]]
    return rec, tr


def model_of(op):
    from . import c18_funcs as F
    rec, tr = perform(op, None)
    if op['t'] == 'iter' and op.get('pat'):
        ms = F.model_sequence(op['r'], op['args'], op['pat'].count(0)) + ['|'] + F.model_sequence(op['r'], op['args'], op['pat'].count(1))
        assert rec[0] == 'items' and deep_equal(rec[1], ms), (rec, ms)
    elif op['t'] == 'iter':
        # independent second opinion for sequences
        ms = F.model_sequence(op['r'], op['args'], op['m'])
        assert rec[0] == 'items' and deep_equal(rec[1], ms), (rec, ms)
    return rec, tr.msgs


def op_key(op):
    return core.canon(op)


def compare(op, rec, msgs, model, allow=()):
    '''Returns None if (rec, msgs) is what the uncached call gives, else (class, detail).'''
    mrec, mmsgs = model
    if rec[0] == 'raise':
        if mrec[0] == 'raise' and mrec[1] == rec[1]:
            return None
        if rec[1] in allow:
            return None
        return ('J1-unexpected-exception', f'{op_key(op)} raised {rec[1]}: {rec[2]} but uncached gives {mrec[0]}')
    if mrec[0] == 'raise':
        return ('J1-value-instead-of-exception', f'{op_key(op)} returned a value but the uncached call raises {mrec[1]}')
    if not deep_equal(rec[1], mrec[1]):
        cls = 'J4-sequence' if rec[0] == 'items' else 'J1-wrong-value'
        return (cls, f'{op_key(op)} gave {str(rec[1])[:200]} but uncached gives {str(mrec[1])[:200]}')
    if msgs != mmsgs and op.get('r') == 'Held' and [m[1:] for m in msgs] == [m[1:] for m in mmsgs]:
        # same messages, same levels, only the NESTING differs, for the recursion that keeps a context open across its yields: the known finding
        return ('J2-context-held-across-yields-not-replayed', f'{op_key(op)} logged {str(msgs)[:300]} but uncached logs {str(mmsgs)[:300]}')
    if msgs != mmsgs:
        return ('J2-transcript', f'{op_key(op)} logged {str(msgs)[:300]} but uncached logs {str(mmsgs)[:300]}')
    return None


def list_entries(cachedir):
    out = []
    for root, dirs, files in os.walk(cachedir):
        dirs.sort()
        for f in sorted(files):
            out.append(os.path.join(root, f))
    return out


def apply_garbage(g, cachedir):
    files = list_entries(cachedir)
    if not files:
        return None
    path = files[g['which'] % len(files)]
    data = open(path, 'rb').read()
    kind = g['kind']
    if kind == 'empty':
        new = b''
    elif kind == 'truncate':
        new = data[:int(g['u'] * (len(data) + 1))]
    elif kind == 'bogus':
        new = b'bogus'
    else:
        try:
            obj = pickle.loads(data)
        except Exception:
            return None
        in_recursion = os.path.basename(os.path.dirname(path)) != os.path.basename(cachedir)
        if in_recursion or len(obj) != 2:
            return None
        value, log_ = obj
        new = pickle.dumps((log_, kind == 'old_fail', value if kind == 'old_ok' else None))
    with open(path, 'wb') as f:
        f.write(new)
    return kind


# ---------------------------------------------------------------------- history mode

def _hkey(w):
    '''What the harness recursions report of a history item (see the HOOK calls in c18_funcs).'''
    if isinstance(w, tuple):
        return w[2]
    if isinstance(w, numpy.ndarray):
        return w[0]
    return w


def _hook_factory(sim, fail_at, models_hist, work=0):
    from . import c18_funcs as F

    def hook(event, key):
        if event == 'enter':
            cid = zlib.crc32(key.encode()) & 0x3fffffff
            sim.probes[10] += 1
            n = int(sim.probes[10])
            sim.yield_point(K['ENTER'], cid, n)
            for _ in range(work):
                sim.yield_point(K['MARK'], 8)   # the wrapped function takes a while (it is expensive: that is why it is memoised)
            if n in fail_at:
                sim.probes[11] += 1
                sim.log(K['F_BOMB'], cid, n)
                raise F.InjectedFunctionError(f'injected failure of execution {n}')
        elif event == 'leave':
            cid = zlib.crc32(key.encode()) & 0x3fffffff
            sim.yield_point(K['LEAVE'], cid)
        elif event == 'history':
            name, *args, index, hist = key
            length = F.RECS[name].length
            seq = F.model_sequence(name, list(args), index)
            want = seq[max(0, index - length):index]
            got = list(hist)
            ok = len(got) == len(want) and all(deep_equal(numpy.asarray(g, dtype=float), numpy.asarray(_hkey(w), dtype=float)) for g, w in zip(got, want))
            if not ok:
                sim.log(K['MARK'], 910, index)
                sim.probes[12] += 1
                raise AssertionError(f'resume({name}{tuple(args)}) at index {index} got history {got}, expected {want}')
    return hook


def _caller_main(sim, caller, cachedir, resfile, fail_at, work=0):
    from . import c18_funcs as F
    F.HOOK = _hook_factory(sim, fail_at, None, work)
    io_plan = caller.get('io')
    filesim.set_plan(_io_plan(io_plan))
    code = 0
    for _ in range(int(caller.get('delay', 0))):
        sim.yield_point(K['MARK'], 7)   # a caller that arrives late
    try:
        with open(resfile, 'ab', buffering=0) as out:
            for oi, op in enumerate(caller['ops']):
                rec, tr = perform(op, cachedir)
                out.write(pickle.dumps((oi, rec, tr.msgs, any(m.endswith('] load') for m in tr.cache_debug))))
            plan = filesim.STATE['plan']
            out.write(pickle.dumps(('done', bool(plan and plan.get('fired')))))
    except (procsim.SimDeadlock, procsim.SimLivelock):
        raise
    except BaseException:
        code = 7
    sim.exit(code)


def _io_plan(io):
    if not io:
        return None
    if io['kind'] in ('CRASH_W', 'ENOSPC'):
        return dict(kind=io['kind'], w=io['w'], u=io['u'])
    return dict(kind='EIO', b=io['b'])


def _read_results(path):
    out = []
    try:
        f = open(path, 'rb')
    except FileNotFoundError:
        return out
    with f:
        while True:
            try:
                out.append(pickle.load(f))
            except EOFError:
                break
            except Exception:
                break
    return out


def run_history(case):
    import treelog
    from nutils import cache
    from . import c18_funcs as F
    scratch = _scratch()
    cachedir = os.path.join(scratch, 'cache')
    os.makedirs(cachedir)
    # the model: every distinct operation evaluated without caching
    models = {}
    for ep in case['epochs']:
        for caller in ep['callers']:
            for op in caller['ops']:
                k = op_key(op)
                if k not in models:
                    models[k] = model_of(op)
    fail_at = set(case.get('func_fail_at', ()))
    sim = procsim.Sim(case['sched'], faults=case['faults'], granularity='sync')
    outcome = 'done'
    resfiles = []
    garbage_applied = []
    try:
        with sim:
            try:
                for ei, ep in enumerate(case['epochs']):
                    for g in ep.get('pre', ()):
                        garbage_applied.append(apply_garbage(g, cachedir))
                    pids = []
                    for ci, caller in enumerate(ep['callers']):
                        resfile = os.path.join(scratch, f'res-{ei}-{ci}.pkl')
                        resfiles.append((ei, ci, resfile))
                        pid = sim.fork()
                        if pid == 0:
                            try:
                                _caller_main(sim, caller, cachedir, resfile, fail_at, int(case.get('work', 0)))
                            finally:
                                os._exit(9)
                        pids.append(pid)
                    for pid in pids:
                        sim.waitpid(pid, 0)
            except procsim.SimDeadlock as e:
                outcome = 'deadlock: ' + str(e)
            except procsim.SimLivelock as e:
                outcome = 'livelock'
        events = sim.event_list()
        info = dict(digest=sim.digest(), steps=int(sim.hdr[procsim.H_STEP]), fired=sim.fired_faults(), probes=sim.probes.copy(), nslots=int(sim.hdr[procsim.H_NSLOT]),
                    evover=int(sim.hdr[procsim.H_EVOVER]), status=sim.status.copy(), exitcode=sim.exitcode.copy())
    finally:
        sim.close()
    results = {(ei, ci): _read_results(p) for ei, ci, p in resfiles}
    res = judge_history(case, models, results, events, info, outcome, garbage_applied)
    _unscratch(scratch)
    if case.get('_want_events'):
        res['_events'] = events.tolist()
    return res


def run_killsweep(case):
    '''Crash-point sweep: ONE caller performs its operations and is killed at EVERY one of its yield points in turn (every file operation,
    lock request, entry to and exit from the wrapped function); a fresh process then repeats the operations and must get the uncached
    values and logs.  Complete over the operation boundaries of that history; the byte offsets inside a write are the enumeration mode.'''
    base = dict(mode='history', epochs=[dict(callers=[dict(ops=case['ops'], io=None)], pre=[]), dict(callers=[dict(ops=case['ops'], io=None)], pre=[])],
                sched=dict(kind='rr'), faults=[], func_fail_at=[], gran='sync', _index=case.get('_index'), _want_events=True)
    res = run_history(base)
    events = res.pop('_events', [])
    if res['verdict'] != 'pass':
        return res
    yk = {procsim.K[k] for k in ('FTOUCH', 'FMKDIR', 'FOPEN', 'FLOCK', 'FSEEK', 'FREAD', 'FWRITE', 'FCLOSE', 'ENTER', 'LEAVE', 'FUNLOCK', 'FLOCKOK', 'EXIT')}
    n1 = sum(1 for e in events if e[0] == 1)   # an upper bound on the yields of the first caller (slot 1): every event it logged
    total = dict(res)
    total['probes'] = dict(res.get('probes', {}))
    fired_total = {}
    digests = [res.get('digest')]
    fired_runs = 0
    npoints = 0
    import time as _time
    t0 = _time.monotonic()
    complete = True
    for n in range(1, min(n1, 120) + 1):
        if _time.monotonic() - t0 > case.get('budget_s', 15):
            complete = False   # wall budget of a sweep (slow machine): the rest of the crash points is left to other cases
            break
        c = copy.deepcopy(base)
        c.pop('_want_events')
        c['faults'] = [dict(kind='KILL', proc=1, ykind='ANY', n=n)]
        r = run_history(c)
        npoints += 1
        digests.append(r.get('digest'))
        total['steps'] = total.get('steps', 0) + r.get('steps', 0)
        for k, v in (r.get('fired') or {}).items():
            fired_total[k] = fired_total.get(k, 0) + v
        if r.get('fired', {}).get('KILL_AT_ANY'):
            fired_runs += 1
        if r['verdict'] != 'pass':
            c['_index'] = case.get('_index')
            r['_resolved_case'] = c       # reported, shrunk and replayed as an ordinary history with one kill
            r['detail'] = f'crash-point sweep, caller killed at its yield {n}: ' + str(r.get('detail'))
            return r
        if not r.get('fired', {}).get('KILL_AT_ANY'):
            break    # the caller has fewer yields than n: the sweep is complete
    total['fired'] = fired_total
    total['digest'] = total['sig'] = core.sha(['killsweep', digests[0]])   # of the fault-free pilot: how far a sweep gets within its wall budget must not enter the determinism check
    total['nontrivial'] = True
    total['family'] = 'killsweep'
    total['probes'].update(killsweep_cases=1, killsweep_crash_points=fired_runs, killsweep_complete=int(complete), mode_history=0, mode_killsweep=1)
    return total


def judge_history(case, models, results, events, info, outcome, garbage_applied):
    evl = events.tolist()
    fired = {}
    for i, v in enumerate(info['fired']):
        if v:
            fired['KILL_AT_' + case['faults'][i].get('ykind', 'ANY')] = fired.get('KILL_AT_' + case['faults'][i].get('ykind', 'ANY'), 0) + 1
    pr = info['probes']
    if pr[1]:
        fired['CRASH_MID_WRITE'] = int(pr[1])
    if pr[2]:
        fired['ENOSPC'] = int(pr[2])
    if pr[3]:
        fired['EIO'] = int(pr[3])
    if pr[11]:
        fired['FUNC_RAISES_ONCE'] = int(pr[11])
    for g in garbage_applied:
        if g:
            fired['PRE_' + g.upper()] = fired.get('PRE_' + g.upper(), 0) + 1
    nswitch = sum(1 for a, b in zip(evl, evl[1:]) if a[0] != b[0])
    served = sum(1 for rs in results.values() for r in rs if r[0] != 'done' and r[3])
    nops = sum(1 for rs in results.values() for r in rs if r[0] != 'done')
    abandoned = sum(1 for ep in case['epochs'] for c in ep['callers'] for op in c['ops'] if op['t'] == 'iter')
    res = dict(verdict='pass', vclass=None, detail=None, digest=info['digest'], steps=info['steps'], fired=fired, family='history',
               sig=info['digest'], nontrivial=bool(served or fired),
               probes=dict(served_from_cache=served, operations=nops, context_switches=nswitch, blocked_on_flock=int(pr[0]), function_executions=int(pr[10]),
                           partial_iterations=abandoned, epochs=len(case['epochs']), mode_history=1))

    def viol(vclass, detail):
        res.update(verdict='violation', vclass=vclass, detail=detail, trace=procsim.format_events(events, 300))
        return res
    if info['evover']:
        res.update(verdict='harness', vclass='event-log-overflow', detail='')
        return res
    if outcome != 'done':
        return viol('J6-' + outcome.split(':')[0], f'callers cannot make progress: {outcome}')
    if pr[12]:
        return viol('J4-history', 'resume() was started from a history that is not the tail of the uncached sequence')
    # J3: the wrapped function is executed by one process at a time per entry
    active = {}
    for p, kind, obj, a, b in evl:
        if kind == K['ENTER']:
            q = active.get(obj)
            if q is not None and q != p:
                return viol('J3-concurrent-execution', f'processes {q} and {p} execute the wrapped function of the same entry at the same time')
            active[obj] = p
        elif kind == K['LEAVE'] or kind == K['F_BOMB']:
            if active.get(obj) == p:
                del active[obj]
        elif kind in (K['F_KILL'], K['EXIT']):
            for k in [k for k, v in active.items() if v == p]:
                del active[k]
    # J1, J2, J4, J5 on every completed operation
    slot = 0
    ninjected = int(pr[11])
    seen_injected = 0
    for ei, ep in enumerate(case['epochs']):
        for ci, caller in enumerate(ep['callers']):
            slot += 1
            rs = results.get((ei, ci), [])
            done = [r for r in rs if r[0] == 'done']
            ops = [r for r in rs if r[0] != 'done']
            st = int(info['status'][slot]) if slot < len(info['status']) else -1
            io = caller.get('io')
            if st == procsim.EXITED and not done:
                return viol('harness-caller-lost', f'caller {ei}/{ci} exited without finishing')
            if st == procsim.EXITED and int(info['exitcode'][slot]) != 0:
                res.update(verdict='harness', vclass='caller-crashed', detail=f'caller {ei}/{ci} exit code {int(info["exitcode"][slot])}')
                return res
            if st == procsim.EXITED and len(ops) != len(caller['ops']):
                return viol('harness-results-missing', f'caller {ei}/{ci}: {len(ops)} results for {len(caller["ops"])} operations')
            io_fired = bool(done and done[0][1])
            nos = 0
            for oi, rec, msgs, served_flag in ops:
                op = caller['ops'][oi]
                allow = []
                if rec[0] == 'raise' and rec[1] == 'InjectedFunctionError':
                    seen_injected += 1
                    if seen_injected <= ninjected:
                        continue
                if rec[0] == 'raise' and rec[1] == 'OSError' and io and io['kind'] in ('ENOSPC', 'EIO') and io_fired and nos == 0:
                    nos += 1
                    continue
                bad = compare(op, rec, msgs, models[op_key(op)])
                if bad:
                    return viol(bad[0], f'epoch {ei} caller {ci} op {oi}: {bad[1]}')
    if case.get('_index', 1) % 41 == 0:
        res['sample'] = dict(mode='history', epochs=[[dict(ops=[op_key(o) for o in c['ops']], io=c.get('io')) for c in ep['callers']] for ep in case['epochs']],
                             kill_faults=case['faults'], fired=fired, served_from_cache=served, steps=info['steps'])
    return res


# ---------------------------------------------------------------------- enumeration mode

def _offsets(n, boundaries, rng):
    if n <= 4000:
        return list(range(n + 1)), True
    s = set(range(0, 401)) | set(range(n - 400, n + 1))
    for b in boundaries:
        for d in range(-3, 4):
            if 0 <= b + d <= n:
                s.add(b + d)
    for _ in range(300):
        s.add(rng.randrange(n + 1))
    return sorted(s), False


def run_enum(case):
    import treelog
    from . import c18_funcs as F
    op = case['op']
    scratch = _scratch()
    cachedir = os.path.join(scratch, 'cache')
    rng = random.Random(case['eseed'])
    model = model_of(op)
    hist_bad = []

    def hook(event, key):
        if event == 'history':
            name, *args, index, hist = key
            length = F.RECS[name].length
            seq = F.model_sequence(name, list(args), index)
            want = seq[max(0, index - length):index]
            got = list(hist)
            ok = len(got) == len(want) and all(deep_equal(numpy.asarray(g, dtype=float), numpy.asarray(_hkey(w), dtype=float)) for g, w in zip(got, want))
            if not ok:
                hist_bad.append((index, got, want))
                raise AssertionError('history mismatch')
    F.HOOK = hook
    # 1. fault-free run through the instrumented file layer, recording the byte stream of every entry
    wlog = []
    filesim.set_plan(None)
    filesim.record_writes(wlog)
    os.makedirs(cachedir)
    rec, tr = perform(op, cachedir)
    filesim.record_writes(None)
    bad = compare(op, rec, tr.msgs, model)
    if bad:
        _unscratch(scratch)
        return dict(verdict='violation', vclass=bad[0], detail='first (computing) call under cache: ' + bad[1], digest=None)
    # entries in the order they were written; content = concatenation of their writes (all at increasing offsets)
    order = []
    content = {}
    bounds = {}
    fileops = {}
    for name, off, data in wlog:
        if name not in content:
            order.append(name)
            content[name] = b''
            bounds[name] = []
            fileops[name] = []
        if off == 'truncate':
            fileops[name].append(('t', data))
            content[name] = content[name][:data]
            continue
        if off != len(content[name]):
            _unscratch(scratch)
            return dict(verdict='harness', vclass='non-sequential-entry-write', detail=f'{name}: write at {off}, have {len(content[name])}')
        fileops[name].append(('w', off, data))
        content[name] += data
        bounds[name].append(len(content[name]))

    def torn_state(name, b, before):
        '''File content if the writer is killed after exactly b bytes of this entry have been written, replaying the recorded
        operations (truncations included) over what the file held before.'''
        buf = bytearray(before)
        written = 0
        for op in fileops[name]:
            if op[0] == 't':
                del buf[op[1]:]
                continue
            _, off, data = op
            k = min(len(data), b - written)
            if len(buf) < off:
                buf.extend(b'\0' * (off - len(buf)))
            buf[off:off + k] = data[:k]
            written += k
            if written >= b and k < len(data):
                break
            if written >= b:
                break
        return bytes(buf)
    final = {}
    for path in list_entries(cachedir):
        final[os.path.relpath(path, cachedir)] = open(path, 'rb').read()
    rel = {os.path.basename(k): k for k in final}
    # what the entry held before the interrupted (re)write: nothing (fresh touch), or - for memoised functions - an entry
    # in the documented old format that recorded a failure, or the suite's 'bogus' padded beyond the new length
    old = {}
    over = case.get('over', 'empty')
    if over != 'empty' and op['t'] == 'call':
        for name in order:
            try:
                value, log_ = pickle.loads(content[name])
            except Exception:
                continue
            old[name] = pickle.dumps((log_, True, None)) + b'tail' * 8 if over == 'old_fail' else b'bogus' * (len(content[name]) // 5 + 3)
    evaluations = 0
    complete = True
    sigs = []
    served = 0
    for fi, name in enumerate(order):
        offs, allofs = _offsets(len(content[name]), bounds[name], rng)
        complete = complete and allofs
        for b in offs:
            # the state a kill after b bytes of this entry leaves: earlier entries complete, this one torn, later ones absent
            shutil.rmtree(cachedir, ignore_errors=True)
            os.makedirs(cachedir)
            for prev in order[:fi]:
                p = os.path.join(cachedir, rel[prev])
                os.makedirs(os.path.dirname(p), exist_ok=True)
                open(p, 'wb').write(content[prev])
            p = os.path.join(cachedir, rel[name])
            os.makedirs(os.path.dirname(p), exist_ok=True)
            open(p, 'wb').write(torn_state(name, b, old.get(name) or b''))
            for attempt in (1, 2):
                rec, tr = perform(op, cachedir)
                evaluations += 1
                if any(m.endswith('] load') for m in tr.cache_debug):
                    served += 1
                bad = compare(op, rec, tr.msgs, model)
                if hist_bad:
                    bad = ('J4-history', f'resume() started from {hist_bad[0][1]} at index {hist_bad[0][0]}, expected {hist_bad[0][2]}')
                if bad:
                    _unscratch(scratch)
                    rc = copy.deepcopy(case)
                    return dict(verdict='violation', vclass=bad[0], digest=None,
                                detail=f'after a kill at byte {b} of {len(content[name])} while writing entry #{fi} ({name}) over {"an empty file" if name not in old else over + " content"}, call number {attempt} afterwards: {bad[1]}')
            sigs.append((fi, b))
    _unscratch(scratch)
    sig = core.sha([op_key(op), over, len(order), [len(content[n]) for n in order]])
    res = dict(verdict='pass', vclass=None, detail=None, digest=sig, steps=0, fired={'KILL_AT_BYTE_OFFSET_ENUMERATED': len(sigs), **({'KILL_WHILE_REWRITING_OVER_' + over.upper(): len(sigs)} if old else {})}, family='enum', sig=sig,
               nontrivial=bool(sigs), extra_distinct=len(sigs),
               probes=dict(mode_enum=1, enum_offsets=len(sigs), enum_calls_after_crash=evaluations, enum_entries=len(order), enum_all_offsets_of_all_entries=int(complete), served_from_cache=served,
                           enum_bytes=sum(len(content[n]) for n in order)))
    if case.get('_index', 1) % 23 == 0:
        res['sample'] = dict(mode='enum', op=op_key(op), entries=[dict(file=n, bytes=len(content[n]), write_calls=len(bounds[n])) for n in order], offsets_checked=len(sigs), all_offsets=complete)
    return res


def worker_init():
    from . import c18_funcs


def run_case(case):
    import treelog
    with treelog.set(treelog.NullLog()), filesim.patched_cache():
        if case['mode'] == 'enum':
            return run_enum(case)
        if case['mode'] == 'killsweep':
            return run_killsweep(case)
        return run_history(case)


def evidence_extra(results):
    offs = sum(r.get('extra_distinct', 0) for r in results)
    complete = sum(1 for r in results if (r.get('probes') or {}).get('enum_all_offsets_of_all_entries'))
    return dict(crash_offsets_enumerated=offs, enum_cases_with_every_offset_of_every_entry=complete,
                exhaustive_dimension='byte offset of the kill within each recorded cache entry write (complete for entries <= 4000 bytes); histories, schedules and payloads are sampled')


# ---------------------------------------------------------------------- shrinking

def shrink_candidates(case):
    c = case
    if c['mode'] == 'killsweep':
        return
    if c['mode'] == 'enum':
        op = c['op']
        if op['t'] == 'iter':
            for v in shrink.int_reductions(op['m'], 0):
                yield shrink.with_key(c, ['op', 'm'], v)
        return
    eps = c['epochs']
    if len(eps) > 1:
        for i in range(len(eps)):
            # dropping an epoch shifts process slots: renumber kill faults
            n_before = sum(len(e['callers']) for e in eps[:i])
            n_this = len(eps[i]['callers'])
            nf = []
            for f in c['faults']:
                if f['proc'] <= n_before:
                    nf.append(f)
                elif f['proc'] > n_before + n_this:
                    nf.append(dict(f, proc=f['proc'] - n_this))
            cc = shrink.with_key(c, 'epochs', eps[:i] + eps[i + 1:])
            cc['faults'] = nf
            yield cc
    slot = 0
    for ei, ep in enumerate(eps):
        for ci, caller in enumerate(ep['callers']):
            slot += 1
            if len(ep['callers']) > 1:
                nf = [f if f['proc'] < slot else dict(f, proc=f['proc'] - 1) for f in c['faults'] if f['proc'] != slot]
                cc = shrink.with_key(c, ['epochs', ei, 'callers'], ep['callers'][:ci] + ep['callers'][ci + 1:])
                cc['faults'] = nf
                yield cc
            if len(caller['ops']) > 1:
                for oi in range(len(caller['ops'])):
                    yield shrink.with_key(c, ['epochs', ei, 'callers', ci, 'ops'], caller['ops'][:oi] + caller['ops'][oi + 1:])
            if caller.get('io'):
                yield shrink.with_key(c, ['epochs', ei, 'callers', ci, 'io'], None)
            for oi, op in enumerate(caller['ops']):
                if op['t'] == 'iter' and op.get('pat'):
                    for red in shrink.list_reductions(op['pat']):
                        if red:
                            cc = shrink.with_key(c, ['epochs', ei, 'callers', ci, 'ops', oi, 'pat'], red)
                            cc['epochs'][ei]['callers'][ci]['ops'][oi]['m'] = red.count(0)
                            yield cc
                elif op['t'] == 'iter':
                    if op.get('keep'):
                        yield shrink.with_key(c, ['epochs', ei, 'callers', ci, 'ops', oi, 'keep'], False)
                    for v in shrink.int_reductions(op['m'], 0):
                        yield shrink.with_key(c, ['epochs', ei, 'callers', ci, 'ops', oi, 'm'], v)
        if ep.get('pre'):
            yield shrink.with_key(c, ['epochs', ei, 'pre'], [])
    for i in range(len(c['faults'])):
        yield shrink.with_key(c, 'faults', c['faults'][:i] + c['faults'][i + 1:])
    if c.get('func_fail_at'):
        yield shrink.with_key(c, 'func_fail_at', [])
    s = c['sched']
    if s['kind'] != 'tape':
        yield shrink.with_key(c, 'sched', dict(kind='tape', tape=[]))
    if s.get('tape'):
        for t in shrink.list_reductions(s['tape'], zero=0):
            yield shrink.with_key(c, ['sched', 'tape'], t)
