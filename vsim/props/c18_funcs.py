'''Memoised functions and recursions used as workload of C18 (module level: stable qualified names -> stable cache keys).'''

import numpy, treelog, functools, inspect
from nutils import cache, types, transform, evaluable

HOOK = None   # harness callback: HOOK(event, key) with event in {'enter', 'leave', 'history'}


class InjectedFunctionError(Exception):
    pass


class AlwaysFails(ValueError):
    pass


def _enter(key):
    if HOOK is not None:
        HOOK('enter', key)


def _leave(key):
    if HOOK is not None:
        HOOK('leave', key)


def _traced(f):
    # marks entry to and exit from (also by exception) the wrapped function in the simulator's event log
    sig = inspect.signature(f)

    @functools.wraps(f)
    def wrapper(*args, **kwargs):
        b = sig.bind(*args, **kwargs)
        b.apply_defaults()
        key = f.__name__ + '/' + '/'.join((f'{v.shape}{v.dtype.str}{v.tolist()}' if isinstance(v, numpy.ndarray) else str(v)) for v in b.arguments.values())
        _enter(key)
        try:
            return f(*args, **kwargs)
        finally:
            _leave(key)
    return wrapper


@cache.function
@_traced
def f_scalar(x, y=2):
    treelog.info(f'f_scalar called with {x} {y}')
    r = x * 10 + y
    return r


@cache.function(version=3)
@_traced
def f_dict(n):
    with treelog.context('building', n):
        treelog.user('dict of arrays')
        r = {'a': numpy.arange(n, dtype=float) / 4, 'b': (numpy.arange(n * 2).reshape(2, n) % 3 == 0), 'meta': ('x', n, None, 1.5, 2 + 1j)}
    treelog.warning('done', n)
    return r


@cache.function
@_traced
def f_big(n):
    treelog.info('big payload', n)
    r = (numpy.arange(n * 9000, dtype=float).reshape(n, 9000) * 0.5, 'tail', n)
    return r


@cache.function
@_traced
def f_nutils(k):
    with treelog.context('nutils objects'):
        treelog.info('k =', k)
    r = (transform.SimplexChild(2, k % 4), types.frozendict({'k': k}), types.arraydata(numpy.arange(k + 1)), evaluable.constant(float(k)))
    return r


@cache.function
@_traced
def f_kw(a, *, b=1, c=2):
    treelog.info('kw', a, b, c)
    r = (a, b, c, a * 100 + b * 10 + c)
    return r


@cache.function
@_traced
def f_fails(x):
    treelog.info('about to fail', x)
    raise AlwaysFails(f'no value for {x}')


@cache.function
@_traced
def f_nested(x):
    # calls another memoised function: sub-results must not be cached separately while computing
    treelog.info('outer', x)
    r = f_scalar(x, 5) + 1
    return r


@cache.function
@_traced
def f_silent(x):
    r = [x, [x, (x,)], b'bytes' * x, 'text']
    return r


_BASES = {
    'sq': numpy.array([[1., 2., 3.], [4., 5., 6.], [7., 8., 10.]]),
    'sym': numpy.array([[2., 1.], [1., 3.]]),
    'rect': numpy.array([[1, 2, 3], [4, 5, 6]]),
    'ints': numpy.array([[0, 1], [256, 65536]]),
}


def decode_arg(a):
    '''JSON argument -> Python value.  {"arr": [base, variant]} stands for an ndarray built by one of several routes whose VALUES may or may not agree.'''
    if not (isinstance(a, dict) and 'arr' in a):
        return a
    base, variant = a['arr']
    A = _BASES[base].copy()
    if variant == 'C':
        return A
    if variant == 'F':       # same value, other memory order
        return numpy.asfortranarray(A)
    if variant == 'T':       # transposed view: other value (unless symmetric), same memory
        return A.T
    if variant == 'FT':      # Fortran-ordered transpose: other value whose memory image equals that of A
        return numpy.asfortranarray(A.T)
    if variant == 'TC':      # contiguous copy of the transpose
        return numpy.ascontiguousarray(A.T)
    if variant == 'flat':
        return A.ravel()
    if variant == 'narrow':  # same numbers, narrower element type: the result reports the dtype, so this is another value
        return A.astype(numpy.float32 if A.dtype.kind == 'f' else numpy.int32)
    if variant == 'swap':    # same numbers, other byte order
        return A.astype(A.dtype.newbyteorder())
    if variant == 'strided':
        big = numpy.zeros((A.shape[0], A.shape[1] * 2), dtype=A.dtype)
        big[:, ::2] = A
        return big[:, ::2]
    raise ValueError(variant)


ARR_VARIANTS = ['C', 'F', 'T', 'FT', 'TC', 'flat', 'narrow', 'swap', 'strided']


@cache.function
@_traced
def f_arr(a, w=1):
    treelog.info('array argument of shape', a.shape)
    weights = numpy.arange(1, a.size + 1).reshape(a.shape)
    r = (a.shape, a.dtype.kind + str(a.dtype.itemsize), float((a * weights).sum()) * w, a.tolist())
    return r


_SYSTEMS = {}


def sys_solve(n, kappa, cons, method=None):
    '''A real user of cache.function: solver.System.solve (decorated in nutils itself), with each of the solution methods as an argument of the memoised call.'''
    from nutils import solver, function
    key = n
    u = function.Argument('u', (n,))
    if key not in _SYSTEMS:
        k = function.Argument('kappa', ())
        A = numpy.arange(n * n, dtype=float).reshape(n, n) / 8 + numpy.eye(n) * 3
        res = (function.Array.cast(A) + k * function.Array.cast(numpy.eye(n))) @ u - function.Array.cast(numpy.arange(1, n + 1, dtype=float))
        _SYSTEMS[key] = solver.System((res,), trial='u')
    system = _SYSTEMS[key]
    if method is not None:
        m = {'direct': lambda: solver.Direct(), 'newton': lambda: solver.Newton(), 'reuse': lambda: solver.ReuseNewton(require=.25), 'linesearch': lambda: solver.LinesearchNewton(),
             'pseudotime': lambda: solver.Pseudotime(inertia=(u,), timestep=1.), 'arnoldi': lambda: solver.Arnoldi()}[method]()
        constrain = {}
        if cons:
            c = numpy.full(n, numpy.nan)
            c[0] = 2.5
            constrain = {'u': c}
        return system.solve(arguments={'kappa': numpy.array(float(kappa))}, constrain=constrain, method=m, tol=1e-9, maxiter=50)
    constrain = {}
    if cons:
        c = numpy.full(n, numpy.nan)
        c[0] = 2.5
        constrain = {'u': c}
    # no enter/leave marks: the memoised body is nutils' own System.solve (J1/J2 are checked, J3 is not observable here)
    return system.solve(arguments={'kappa': numpy.array(float(kappa))}, constrain=constrain)


FUNCS = dict(f_arr=f_arr, f_scalar=f_scalar, f_dict=f_dict, f_big=f_big, f_nutils=f_nutils, f_kw=f_kw, f_fails=f_fails, f_nested=f_nested, f_silent=f_silent, sys_solve=sys_solve)


class Fib(cache.Recursion, length=2):

    def __init__(self, x0, x1):
        self.x0 = x0
        self.x1 = x1

    def resume_index(self, history, index):
        if HOOK is not None:
            HOOK('history', ('Fib', self.x0, self.x1, index, tuple(history)))
        return self._gen(list(history), index)

    def _gen(self, history, index):
        key = f'Fib/{self.x0}/{self.x1}'
        while True:
            _enter(f'{key}/{index}')
            try:
                if index == 0:
                    value = self.x0
                elif index == 1:
                    value = self.x1
                else:
                    value = history[-2] + history[-1]
                treelog.info('fib', index, value)
            finally:
                _leave(f'{key}/{index}')
            yield value
            history = (history + [value])[-2:]
            index += 1


class Count(cache.Recursion, length=1):
    '''finite: n items, each an array; logs inside a context'''

    def __init__(self, n, scale=1.0):
        self.n = n
        self.scale = scale

    def resume_index(self, history, index):
        if HOOK is not None:
            HOOK('history', ('Count', self.n, self.scale, index, tuple(float(h[0]) for h in history)))
        return self._gen(index)

    def _gen(self, index):
        key = f'Count/{self.n}/{self.scale}'
        while index < self.n:
            _enter(f'{key}/{index}')
            try:
                with treelog.context('count', index):
                    treelog.user('item')
                value = numpy.array([index * self.scale, index + 0.5])
            finally:
                _leave(f'{key}/{index}')
            yield value
            index += 1
        # output after the last item belongs to the end of the sequence and must be replayed with it
        with treelog.context('count'):
            treelog.info('sequence complete after', self.n, 'items')


class Tri(cache.Recursion, length=3):
    '''three-term recursion with a keyword-defaulted init argument'''

    def __init__(self, seed, step=1):
        self.seed = seed
        self.step = step

    def resume_index(self, history, index):
        if HOOK is not None:
            HOOK('history', ('Tri', self.seed, self.step, index, tuple(history)))
        return self._gen(list(history), index)

    def _gen(self, history, index):
        key = f'Tri/{self.seed}/{self.step}'
        while True:
            _enter(f'{key}/{index}')
            try:
                value = self.seed + index * self.step if index < 3 else history[-3] - history[-2] + 2 * history[-1]
                if index % 2:
                    treelog.info('tri', index)
            finally:
                _leave(f'{key}/{index}')
            yield value
            history = (history + [value])[-3:]
            index += 1


class Held(cache.Recursion, length=1):
    '''infinite; keeps a log context open ACROSS its yields (the pattern `with log.context('newton'): while True: yield ...` of the classic solvers)'''

    def __init__(self, start):
        self.start = start

    def resume_index(self, history, index):
        if HOOK is not None:
            HOOK('history', ('Held', self.start, index, tuple(float(h) for h in history)))
        return self._gen(history, index)

    def _gen(self, history, index):
        x = float(history[-1]) + 1.5 if history else float(self.start)
        with treelog.context('held'):
            while True:
                _enter(f'Held/{self.start}/{index}')
                try:
                    treelog.info('item', index)
                finally:
                    _leave(f'Held/{self.start}/{index}')
                yield x
                x += 1.5
                index += 1


class Big(cache.Recursion, length=1):
    '''finite; items larger than a pickle frame (64 KiB, written in several write() calls) that refer to one object more than once'''

    def __init__(self, n):
        self.n = n

    def resume_index(self, history, index):
        if HOOK is not None:
            HOOK('history', ('Big', self.n, index, tuple(float(h[2]) for h in history)))
        return self._gen(index)

    def _gen(self, index):
        while index < self.n:
            _enter(f'Big/{self.n}/{index}')
            try:
                treelog.info('big item', index)
                a = numpy.arange(9000, dtype=float) * (index + 1)
                tag = 'item-%d' % index
                value = (a, [tag, a, (tag, a[:3])], float(index))
            finally:
                _leave(f'Big/{self.n}/{index}')
            yield value
            index += 1


class Free(cache.Recursion, length=0):
    '''recursion of length 0: every item is a function of its index alone and resume is always handed an EMPTY history, also when it resumes after cached items'''

    def __init__(self, start):
        self.start = start

    def resume_index(self, history, index):
        if HOOK is not None:
            HOOK('history', ('Free', self.start, index, tuple(history)))
        return self._gen(list(history), index)

    def _gen(self, history, index):
        while True:
            _enter(f'Free/{self.start}/{index}')
            try:
                value = self.start + 3 * index + sum(history)   # history is empty by contract
                treelog.info('free', index, value)
            finally:
                _leave(f'Free/{self.start}/{index}')
            yield value
            index += 1


RECS = dict(Fib=Fib, Count=Count, Tri=Tri, Held=Held, Big=Big, Free=Free)


def model_sequence(name, args, m):
    '''First m items of the recursion computed by a plain loop (independent of cache.Recursion).'''
    out = []
    if name == 'Fib':
        x0, x1 = args
        for i in range(m):
            out.append(x0 if i == 0 else x1 if i == 1 else out[-2] + out[-1])
    elif name == 'Count':
        n, scale = (list(args) + [1.0])[:2]
        for i in range(min(m, n)):
            out.append(numpy.array([i * scale, i + 0.5]))
    elif name == 'Big':
        for i in range(min(m, args[0])):
            a = numpy.arange(9000, dtype=float) * (i + 1)
            tag = 'item-%d' % i
            out.append((a, [tag, a, (tag, a[:3])], float(i)))
    elif name == 'Held':
        for i in range(m):
            out.append(float(args[0]) + 1.5 * i)
    elif name == 'Free':
        for i in range(m):
            out.append(args[0] + 3 * i)
    elif name == 'Tri':
        seed, step = (list(args) + [1])[:2]
        for i in range(m):
            out.append(seed + i * step if i < 3 else out[-3] - out[-2] + 2 * out[-1])
    return out
