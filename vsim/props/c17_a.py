'''Harness-defined immutable types (module a).  Same-named classes live in c17_b: they must never share a hash.'''
from nutils import types


class P(types.Immutable):
    def __init__(self, a, b=2):
        self.a = a
        self.b = b


class S(types.Singleton):
    def __init__(self, a, b=2, c='z'):
        self.a = a
        self.b = b
        self.c = c


class D(types.DataClass):
    x: int
    y: str = 'q'
    z: tuple = ()


class V(types.Immutable, version=3):
    def __init__(self, a):
        self.a = a


# subclasses with the signature of their base: equal arguments, another class - never the same object, never the same hash
class P2(P):
    pass


class S2(S):
    pass


class D2(D):
    pass
