'''C17 - structural identity and hashing: stability and interning under allocation/GC histories, routes, pickle and other interpreters (opsim).  DESIGN.md 7.'''

import os, sys, gc, json, copy, pickle, random, subprocess, traceback, weakref
import numpy
from .. import core, shrink

ID = 'C17'
LEVEL = 'exploration'
CASE_TIMEOUT = 90.0
CHUNK = 1
RULE = ('cases = seeded histories of up to 30 operations (build a value by one of its construction routes, drop a handle, gc, churn the allocator so that addresses are re-used, pickle round trip, '
        'apply an lru_cache\'d transform method to a freshly allocated read-only array) over a pool of 3-8 value specs that contains deliberate near misses (type confusions, nesting boundaries, dtype/shape/byte-order '
        'variants, same-named classes in two modules, commutative operand orders); invariants are re-checked after every operation. xproc cases hash ~40 specs by every route in this interpreter and in a child '
        'interpreter started with another PYTHONHASHSEED. distinct = SHA-1 of (spec pool, operation sequence); non-trivial = the history contains at least one drop/gc/churn/pickle event between two builds of the same spec, or is an xproc case')
ASSUMPTIONS = [
    'the injectivity clause ("values that can behave differently never share a hash") is evaluated on every pair of values a case holds, including generated near misses; no adversarial pair search is claimed (that part is input generation)',
    'mixed numeric argument types that compare equal (1, True, 1.0) are not listed as construction routes in the statement and are not generated for the verdict',
    'CPython GC/weakref semantics and SHA-1 are trusted',
    'sampled histories: evidence, not proof',
]
REAL_VS_STUB = {
    'real': ['types.nutils_hash, Immutable, Singleton, DataClass (weak intern tables), arraydata, frozendict, frozenmultiset, lru_cache', 'transform items, evaluable nodes, References/Transforms/PointsSequence/Sample from real meshes, solver.System and method objects',
             'pickle, the garbage collector and allocator (driven explicitly)', 'child interpreters with other PYTHONHASHSEED'],
    'stub': ['the caller (operation sequence)'],
}


def budget(tier):
    if tier == 'quick':
        return dict(n=800, wall=75, dup=40)
    return dict(n=18000, wall=1500, dup=200)


# ---------------------------------------------------------------------- specs -> values

INTERNED = ('S', 'D', 'arr', 'tf', 'ev', 'mesh')


def nroutes(spec):
    t = spec[0]
    return {'nd': 3, 'arr': 8, 'P': 4, 'S': 4, 'D': 4, 'V': 2, 'ev': 2, 'mesh': 3, 'fset': 3, 'dict': 3, 'fdict': 4, 'fmset': 3, 'tuple': 2, 'list': 2, 'method': 2, 'system': 2, 'tf': 2, 'fn': 1}.get(t, 1)


def has_fn(spec):
    return '"fn"' in json.dumps(spec)


def _mod(m):
    from . import c17_a, c17_b
    return c17_a if m[0] == 'a' else c17_b


def build(spec, route=0):
    if route >= 100:
        if has_fn(spec):
            return build(spec, route - 100)   # compiled functions are not picklable (and need not be), nor is anything that holds one
        return pickle.loads(pickle.dumps(build(spec, route - 100)))
    from nutils import types
    t = spec[0]
    if t == 'int':
        return int(spec[1])
    if t == 'npint':
        return (numpy.int64, numpy.int32, numpy.int8)[route % 3](spec[1])
    if t == 'float':
        return float(spec[1])
    if t == 'bool':
        return bool(spec[1])
    if t == 'complex':
        return complex(spec[1], spec[2])
    if t == 'str':
        return str(spec[1])
    if t == 'bytes':
        return bytes.fromhex(spec[1])
    if t == 'none':
        return None
    if t == 'ellipsis':
        return Ellipsis
    if t == 'tuple':
        return tuple(build(s, route) for s in spec[1])
    if t == 'list':
        return [build(s, route) for s in spec[1]]
    if t in ('fset', 'fmset', 'dict', 'fdict'):
        items = list(spec[1])
        if route % 3 == 1:
            items = items[::-1]
        elif route % 3 == 2:
            items = items[1:] + items[:1]
        if t == 'fset':
            return frozenset(build(s, route) for s in items)
        if t == 'fmset':
            return types.frozenmultiset([build(s, route) for s in items])
        d = {build(k, route): build(v, route) for k, v in items}
        if t == 'dict':
            return d
        fd = types.frozendict(d)
        return types.frozendict(fd) if route == 3 else fd
    if t == 'nd':
        kind, shape, vals = spec[1], tuple(spec[2]), spec[3]
        a = numpy.array(vals, dtype={'i': int, 'f': float, 'b': bool, 'c': complex}[kind]).reshape(shape)
        if route == 1 and a.ndim:
            big = numpy.zeros(a.shape[:-1] + (a.shape[-1] * 2,), dtype=a.dtype)
            big[..., ::2] = a
            a = big[..., ::2]
        elif route == 2 and a.ndim == 2:
            a = numpy.asfortranarray(a)
        return types.frozenarray(a, copy=False) if a.ndim else a
    if t == 'arr':
        kind, shape, vals = spec[1], tuple(spec[2]), spec[3]
        dt = {'i': int, 'f': float, 'b': bool, 'c': complex, 'u': numpy.uint64}[kind]
        a = numpy.array(vals, dtype=dt).reshape(shape)
        if kind == 'u':
            # unsigned data: the same numbers as a signed array while they fit (same value), not representable in the canonical type beyond that (must be refused)
            return types.arraydata(a if route % 2 == 0 else a.astype(numpy.uint32) if (a < 2**32).all() else a)
        if route == 1 and kind in 'if':
            narrow = a.astype({'i': numpy.int32, 'f': numpy.float32}[kind])
            if (narrow == a).all():
                a = narrow
        elif route == 2 and kind in 'if':
            a = a.astype(a.dtype.newbyteorder())
        elif route == 3 and a.ndim:
            big = numpy.zeros(a.shape[:-1] + (a.shape[-1] * 2,), dtype=a.dtype)
            big[..., ::2] = a
            a = big[..., ::2]
        elif route == 4 and a.size:
            a = a.tolist()
        elif route == 5:
            return types.arraydata(types.arraydata(a))
        elif route in (6, 7) and kind == 'i' and a.size and (a >= 0).all():
            a = a.astype(numpy.uint64 if route == 6 or (a >= 256).any() else numpy.uint8)   # the same numbers as unsigned data
        return types.arraydata(a)
    if t in ('P', 'S', 'D', 'V'):
        cls = getattr(_mod(spec[1]), t + spec[1][1:])   # module letter, optionally followed by '2': the subclass of the same name + '2'
        args = [build(s, route) for s in spec[2:]]
        names = {'P': ('a', 'b'), 'S': ('a', 'b', 'c'), 'D': ('x', 'y', 'z'), 'V': ('a',)}[t]
        defaults = {'P': {'b': 2}, 'S': {'b': 2, 'c': 'z'}, 'D': {'y': 'q', 'z': ()}, 'V': {}}[t]
        full = dict(zip(names, args))
        for k, v in defaults.items():
            full.setdefault(k, v)
        if route == 0:
            return cls(*[full[n] for n in names])
        if route == 1:
            return cls(**full)
        if route == 2:
            kw = {k: v for k, v in full.items() if not (k in defaults and type(defaults[k]) is type(v) and defaults[k] == v)}
            return cls(**kw)
        return cls(full[names[0]], **{k: full[k] for k in names[1:]})
    if t == 'tf':
        from nutils import transform
        name = spec[1]
        args = spec[2:]
        if name == 'Matrix':
            lin = numpy.array(args[0], dtype=float)
            off = numpy.array(args[1], dtype=float)
            cls = transform.Square if lin.shape[0] == lin.shape[1] else transform.Matrix
            if route == 1:
                return cls(types.arraydata(lin.tolist()), types.arraydata(off.tolist()))
            return cls(types.arraydata(lin), types.arraydata(off))
        return getattr(transform, name)(*args)
    if t == 'ev':
        from nutils import evaluable as ev
        k = spec[1]
        if k == 'const':
            return ev.constant(numpy.asarray(build(spec[2], 0)))
        if k == 'arg':
            return ev.Argument(spec[2], tuple(ev.constant(n) for n in spec[3]), float)
        a, b = build(spec[2], 0), build(spec[3], 0)
        if route % 2:
            a, b = b, a
        if k == 'add':
            return ev.Add(types.frozenmultiset([a, b])) if False else (a + b)
        if k == 'mul':
            return a * b
        if k == 'addsimp':
            return (a + b).simplified
        if k == 'mulsimp':
            return (a * b).simplified
    if t == 'mesh':
        from nutils import mesh
        def mk():
            if spec[2] == 'line':
                return mesh.line(spec[3])
            if spec[2] == 'quad':
                return mesh.rectilinear([spec[3], 2])
            if spec[2] == 'prod':
                # a product of two topologies with spaces of their own: anything iterating over the set of space names depends on the string hash seed
                t1, x = mesh.line(spec[3], space='X')
                t2, y = mesh.line(2, space='Yy')
                t3, z = mesh.line(1, space='Zeta')
                return t1 * t2 * t3, numpy.stack([x, y, z])
            return mesh.unitsquare(spec[3], 'triangle')
        topo, geom = mk()
        if route % 3 == 1:
            topo, geom = mk()
        what = spec[1]
        if what == 'references':
            v = topo.references
        elif what == 'transforms':
            v = topo.transforms
        elif what == 'btransforms':
            v = topo.boundary.transforms
        elif what == 'points':
            v = topo.sample('gauss', 2).points
        elif what == 'sample':
            v = topo.sample('gauss', 2)
        elif what == 'integral':
            from nutils import function
            v = topo.integral(function.J(geom), degree=2).as_evaluable_array
        elif what == 'basis':
            v = topo.basis('std', 1).as_evaluable_array if hasattr(topo.basis('std', 1), 'as_evaluable_array') else topo.references
        elif what in MESH_EXTRA:
            from nutils import function, evaluable
            v = MESH_EXTRA[what](topo, geom, function, evaluable, spec[2])
        if route % 3 == 2:
            v = pickle.loads(pickle.dumps(v))
        return v
    if t == 'strategy':
        from nutils import solver
        return getattr(solver, spec[1])(**{k: build(v, 0) for k, v in spec[2]})
    if t == 'inertia':
        from nutils import function
        u = function.Argument('u', (spec[1],))
        return (u.as_evaluable_array,)
    if t == 'fn':
        # a compiled function: its hash (taken from the generated script) must tell apart programs that differ only in the data of a constant
        from nutils import evaluable as ev
        x = ev.Argument('x', (ev.constant(len(spec[2])),), float)
        c = ev.constant(numpy.array(spec[2], dtype=float))
        expr = {'axpy': lambda: c * x + ev.constant(1.), 'dot': lambda: ev.Sum(c * x), 'pair': lambda: (c * x, ev.Sum(c) + ev.Sum(x))}[spec[1]]()
        return ev.compile(expr)   # whatever the route of an enclosing container: another compile configuration would be another function
    if t == 'method':
        from nutils import solver
        kw = {k: build(v, 0) for k, v in spec[2]}
        if route == 1:
            kw = dict(reversed(list(kw.items())))
        return getattr(solver, spec[1])(**kw)
    if t == 'system':
        from nutils import solver, function
        n = spec[1]
        u = function.Argument('u', (n,))
        A = numpy.arange(n * n, dtype=float).reshape(n, n) + numpy.eye(n) * spec[2]
        res = function.Array.cast(A) @ u - 1.
        s = solver.System((res,), trial='u')
        return pickle.loads(pickle.dumps(s)) if route == 1 else s
    raise ValueError(spec)


MESH_EXTRA = {
    'rtransforms': lambda t, g, F, E, m: t.refined.transforms,
    'rreferences': lambda t, g, F, E, m: t.refined.references,
    'itransforms': lambda t, g, F, E, m: t.interfaces.transforms,
    'iopposites': lambda t, g, F, E, m: t.interfaces.opposites,
    'breferences': lambda t, g, F, E, m: t.boundary.references,
    'bsample': lambda t, g, F, E, m: t.boundary.sample('gauss', 2),
    'hier': lambda t, g, F, E, m: t.refined_by([0]).transforms,
    'hierrefs': lambda t, g, F, E, m: t.refined_by([0]).references,
    'sub': lambda t, g, F, E, m: t.take([0]).transforms,
    'usample': lambda t, g, F, E, m: t.sample('uniform', 2),
    'bezier': lambda t, g, F, E, m: t.sample('bezier', 3),
    'trimrefs': lambda t, g, F, E, m: t.trim((g[0] if g.ndim else g) - .4, maxrefine=1).references if m != 'line' else t.references,
    'ref0': lambda t, g, F, E, m: t.references[0],
    'edge': lambda t, g, F, E, m: t.references[0].edge_refs[0],
    'child': lambda t, g, F, E, m: t.references[0].child_refs[0],
    'pts': lambda t, g, F, E, m: t.references[0].getpoints('gauss', 2),
    'lowered': lambda t, g, F, E, m: F.J(g if g.ndim else g[numpy.newaxis]).lower(F.LowerArgs.for_space(t.space, (t.transforms, t.opposites), E.constant(0), E.constant(numpy.zeros((1, t.ndims))))),
}


MESH_SIZE_FREE = ('ref0', 'edge', 'child', 'pts')


def is_interned(spec):
    return spec[0] in INTERNED


def spec_key(spec):
    '''Canonical identity of the VALUE a spec denotes (order-free containers sorted).'''
    t = spec[0]
    if t in ('fset',):
        return [t, sorted(core.canon(spec_key(s)) for s in spec[1])]
    if t == 'fmset':
        return [t, sorted(core.canon(spec_key(s)) for s in spec[1])]
    if t in ('dict', 'fdict'):
        return [t, sorted(core.canon([spec_key(k), spec_key(v)]) for k, v in spec[1])]
    if t in ('tuple', 'list'):
        return [t, [spec_key(s) for s in spec[1]]]
    if t == 'ev' and spec[1] in ('add', 'mul', 'addsimp', 'mulsimp'):
        return [t, spec[1], sorted(core.canon(spec_key(s)) for s in spec[2:4])]
    if t in ('P', 'S', 'D', 'V'):
        # omitted trailing arguments take their defaults: same value
        defaults = {'P': [None, ['int', 2]], 'S': [None, ['int', 2], ['str', 'z']], 'D': [None, ['str', 'q'], ['tuple', []]], 'V': [None]}[t]
        args = list(spec[2:]) + defaults[len(spec) - 2:]
        return [t, spec[1]] + [spec_key(s) for s in args]
    if t in ('method', 'strategy'):
        return [t, spec[1], sorted(core.canon([k, spec_key(v)]) for k, v in spec[2])]
    if t == 'npint':
        return ['int', spec[1]]
    if t == 'arr' and spec[1] == 'u' and all(v < 2**63 for v in spec[3]):
        return ['arr', 'i', spec[2], spec[3]]   # unsigned data that fit the canonical signed type: the same value
    if t == 'mesh' and spec[1] in MESH_SIZE_FREE:
        # these values do not depend on the number of elements of the mesh they are taken from: same value
        return [t, spec[1], spec[2], 0]
    return spec


# ---------------------------------------------------------------------- generation

def gen_leaf(rng):
    r = rng.random()
    if r < 0.3:
        return ['int', rng.choice([0, 1, 2, 7, -1, 10, 12, 255, 2**40])]
    if r < 0.45:
        return ['float', rng.choice([0.5, 1.5, 2.25, -3.0, 1e300, 0.1, 0.0, 0.0])]
    if r < 0.6:
        return ['str', rng.choice(['', 'a', 'ab', 'b', 'abc', 'c', 'bc', '1', 'int', 'None'])]
    if r < 0.68:
        return ['bytes', rng.choice(['', '61', '6162', '00'])]
    if r < 0.76:
        return ['bool', rng.random() < 0.5]
    if r < 0.82:
        return ['none']
    if r < 0.86:
        return ['complex', rng.choice([0.5, 1.5]), rng.choice([0.5, -2.0])]
    if r < 0.9:
        return ['ellipsis']
    if r < 0.93:
        return ['npint', rng.choice([3, 5, 100])]
    a = gen_arr(rng)
    if rng.random() < 0.4:
        a[0] = 'nd'
    return a


def gen_arr(rng):
    kind = rng.choice('iiffbc')
    shape = rng.choice([[], [1], [2], [3], [2, 2], [1, 2], [2, 1], [4], [0], [2, 0]])
    n = int(numpy.prod(shape)) if shape else 1
    if kind == 'i':
        vals = [rng.choice([0, 1, 2, 3, -1, 100, 65536]) for _ in range(n)]
    elif kind == 'f':
        vals = [rng.choice([0.5, 1.0, 2.0, -1.5, 3.25]) for _ in range(n)]
    elif kind == 'b':
        vals = [rng.random() < 0.5 for _ in range(n)]
    else:
        vals = [rng.choice([0.5, 1.0]) for _ in range(n)]
    return ['arr', kind, shape, vals]


def _eqkey(spec):
    '''Key under which Python itself would merge two members of a set / keys of a dict (1 == True == 1.0): such members are
    not generated together, which of them survives is an artefact of insertion order (mixed numeric types, see ASSUMPTIONS).'''
    t = spec[0]
    if t in ('int', 'npint', 'bool', 'float'):
        return ('num', complex(spec[1]))
    if t == 'complex':
        return ('num', complex(spec[1], spec[2]))
    return ('other', core.canon(spec_key(spec)))


def _py_hashable(spec):
    t = spec[0]
    if t in ('list', 'dict', 'nd'):
        return False
    if t in ('tuple', 'fset', 'fmset'):
        return all(_py_hashable(x) for x in spec[1])
    if t == 'fdict':
        return all(_py_hashable(v) for k, v in spec[1])
    if t in ('P', 'S', 'D', 'V'):
        return all(_py_hashable(x) for x in spec[2:])
    return True


def gen_spec(rng, depth=0):
    r = rng.random()
    if depth >= 2 or r < 0.3:
        return gen_leaf(rng)
    if r < 0.42:
        return [rng.choice(['tuple', 'tuple', 'list']), [gen_spec(rng, depth + 1) for _ in range(rng.choice([0, 1, 2, 3]))]]
    if r < 0.5:
        items = {_eqkey(s): s for s in (gen_leaf(rng) for _ in range(rng.choice([0, 1, 2, 3]))) if s[0] not in ('arr', 'nd')}
        return [rng.choice(['fset', 'fmset']), list(items.values())]
    if r < 0.58:
        ks = {_eqkey(s): s for s in (gen_leaf(rng) for _ in range(rng.choice([0, 1, 2, 3]))) if s[0] in ('int', 'str', 'bytes', 'none')}
        if rng.random() < 0.3:
            # keys that are only PARTIALLY ordered (sets: neither {1,2} < {2,3} nor the reverse; tuples of them): sorting such keys never
            # raises but depends on the order they arrive in
            members = [['int', 1], ['int', 2], ['int', 3], ['str', 'a'], ['str', 'b']]
            sets = []
            for _ in range(rng.choice([2, 3, 4])):
                pick = sorted(rng.sample(range(len(members)), rng.choice([1, 2, 2, 3])))
                sets.append(['fset', [members[i] for i in pick]])
            if rng.random() < 0.3:
                sets = [['tuple', [x, ['int', 0]]] for x in sets]
            ks = {core.canon(spec_key(x)): x for x in sets}
        kind = rng.choice(['dict', 'fdict'])
        items = [[k, gen_spec(rng, depth + 1)] for k in ks.values()]
        if kind == 'fdict':
            items = [[k, v if _py_hashable(v) else ['tuple', [['str', 'x']]]] for k, v in items]
        return [kind, items]
    if r < 0.66:
        return gen_arr(rng)
    if r < 0.8:
        cls = rng.choice(['P', 'S', 'D', 'V'])
        mod = rng.choice(['a', 'b', 'a', 'b', 'a2', 'b2']) if cls != 'V' else rng.choice('ab')
        if cls == 'D':
            args = [['int', rng.choice([1, 2, 3])]] + ([['str', rng.choice(['q', 'r'])]] if rng.random() < 0.6 else [])
            if len(args) == 2 and rng.random() < 0.5:
                leaf = gen_leaf(rng)
                args.append(['tuple', [leaf if _py_hashable(leaf) else ['int', 9]]])
        elif cls == 'V':
            args = [gen_plain_arg(rng)]
        else:
            args = [gen_plain_arg(rng)] + ([gen_plain_arg(rng)] if rng.random() < 0.6 else [])
            if cls == 'S' and len(args) == 2 and rng.random() < 0.4:
                args.append(['str', rng.choice(['z', 'y'])])
        return [cls, mod] + args
    if r < 0.86:
        return gen_tf(rng)
    if r < 0.93:
        k = rng.choice(['add', 'mul'])
        a = ['ev', 'arg', rng.choice(['x', 'y']), [2]]
        b = rng.choice([['ev', 'arg', 'z', [2]], ['ev', 'const', ['arr', 'f', [2], [rng.choice([0.5, 1.5]), 2.0]]]])
        return ['ev', k, a, b]
    if r < 0.97:
        if rng.random() < 0.15:
            return ['mesh', rng.choice(['sample', 'integral', 'integral']), 'prod', rng.choice([1, 2, 3])]
        return ['mesh', rng.choice(['references', 'transforms', 'btransforms', 'points', 'sample', 'integral'] + sorted(MESH_EXTRA)), rng.choice(['line', 'quad', 'tri']), rng.choice([1, 2, 3])]
    if r < 0.985:
        return gen_method(rng) if rng.random() < 0.75 else ['fn', rng.choice(['axpy', 'dot', 'pair']), [rng.choice([1., 2., 0.5]) for _ in range(rng.choice([2, 3]))]]
    return ['system', rng.choice([1, 2]), rng.choice([1, 3])]


METHOD_KW = {
    'Direct': {},
    'Newton': {},
    'ReuseNewton': {'require': [.25, .75, .9]},
    'LinesearchNewton': {'failrelax': [1e-3, 1e-4], 'relax0': [.5, .25], 'strategy': [['strategy', 'NormBased', [['minscale', ['float', .02]]]], ['strategy', 'NormBased', [['acceptscale', ['float', .5]]]], ['strategy', 'MedianBased', []], ['strategy', 'MedianBased', [['quantile', ['float', .25]]]]]},   # never the default (NormBased()): an explicit default is the same value as an omitted argument
    'Minimize': {'rampup': [.25, .75], 'rampdown': [-.5, -2.], 'failrelax': [-5., -20.]},
    'Pseudotime': {'inertia': [['inertia', 2], ['inertia', 3]], 'timestep': [1., .5, 2.]},
}


def gen_method(rng):
    name = rng.choice(sorted(METHOD_KW))
    kw = [['atol', ['float', rng.choice([1e-8, 1e-6])]]] if rng.random() < 0.6 else []
    if rng.random() < 0.4:
        kw.append(['solver', ['str', rng.choice(['arnoldi', 'direct'])]])
    for k, vals in METHOD_KW[name].items():
        if name == 'Pseudotime' or rng.random() < 0.6:
            v = rng.choice(vals)
            kw.append([k, v if isinstance(v, list) else ['float', v]])
    return ['method', name, kw]


def gen_plain_arg(rng):
    # arguments of interned/immutable harness types: distinct numeric values never compare equal across types within a case
    return rng.choice([['int', rng.choice([3, 4, 5, 6])], ['str', rng.choice(['a', 'b', 'ab'])], ['tuple', [['int', rng.choice([3, 4])], ['str', 'a']]], ['none'], ['float', rng.choice([0.5, 2.25])],
                       ['float', rng.choice([0.5, 0.0, 0.0])]])


def gen_tf(rng):
    r = rng.random()
    if r < 0.3:
        return ['tf', 'SimplexChild', rng.choice([1, 2]), rng.choice([0, 1])]
    if r < 0.5:
        return ['tf', 'SimplexEdge', rng.choice([2, 3]), rng.choice([0, 1, 2])]
    if r < 0.65:
        return ['tf', 'Identity', rng.choice([1, 2, 3])]
    if r < 0.8:
        return ['tf', 'Index', rng.choice([1, 2]), rng.choice([0, 1, 5])]
    lin = rng.choice([[[1., 0.], [0., 2.]], [[2.]], [[1., 0.], [0., 1.], [1., 1.]], [[0.5, 0.], [0., 0.5]]])
    return ['tf', 'Matrix', lin, [rng.choice([0., .5]) for _ in lin]]


def _skeleton(spec):
    '''The make-up of a spec: type tags with the leaf values erased; raw ndarrays never match (their == is element-wise).'''
    if isinstance(spec, list):
        if spec and spec[0] == 'nd':
            return ['nd', id(spec)]
        if spec and spec[0] in ('int', 'npint', 'float', 'bool', 'complex', 'str', 'bytes'):
            return [spec[0]]
        return [_skeleton(x) for x in spec]
    return None if isinstance(spec, (int, float, bool)) else spec


def _negzero_variant(spec):
    '''`spec` with its first float zero replaced by the negative zero (same type, equal for Python, another value), or None.'''
    if spec == ['float', 0.0] and str(spec[1]) == '0.0':
        return ['float', -0.0]
    if isinstance(spec, list):
        for i, x in enumerate(spec):
            if isinstance(x, list):
                v = _negzero_variant(x)
                if v is not None:
                    return spec[:i] + [v] + spec[i + 1:]
    return None


def near_misses(spec, rng):
    '''Values that differ from `spec` in exactly the way a sloppy hash would miss.'''
    t = spec[0]
    out = []
    if t in ('float', 'tuple', 'list', 'fdict', 'dict', 'P', 'S', 'D', 'V'):
        nz = _negzero_variant(spec)
        if nz is not None:
            out.append(nz)
    if t == 'int':
        out += [['float', float(spec[1])] if abs(spec[1]) < 2**40 else ['int', spec[1] + 1], ['str', str(spec[1])], ['tuple', [spec]]]
        if spec[1] in (0, 1):
            out.append(['bool', bool(spec[1])])
    elif t == 'str':
        out += [['bytes', spec[1].encode().hex()], ['tuple', [spec]], ['str', spec[1] + '\0']]
    elif t == 'tuple':
        out += [['list', spec[1]], ['tuple', [['tuple', spec[1]]]], ['tuple', spec[1] + [['none']]]]
        if len(spec[1]) >= 2:
            out.append(['tuple', [['tuple', spec[1][:1]], *spec[1][1:]]])
            if spec[1][0][0] == 'str' and spec[1][1][0] == 'str' and spec[1][1][1]:
                out.append(['tuple', [['str', spec[1][0][1] + spec[1][1][1][:1]], ['str', spec[1][1][1][1:]], *spec[1][2:]]])
    elif t in ('arr', 'nd'):
        kind, shape, vals = spec[1:4]
        n = len(vals)
        out.append(['nd' if t == 'arr' else 'arr', kind, shape, vals])
        if kind == 'i' and t == 'arr' and vals and all(v >= 0 for v in vals):
            out.insert(0, ['arr', 'u', shape, [v + 2**63 for v in vals]])            # not representable: must be refused ...
            out.insert(0, ['arr', 'i', shape, [v - 2**63 for v in vals]])            # ... and must not be confused with the numbers it would wrap to
        if kind == 'i':
            out.append([t, 'f', shape, [float(v) for v in vals]])
            if all(v in (0, 1) for v in vals):
                out.append([t, 'b', shape, [bool(v) for v in vals]])
        if len(shape) == 1:
            out.append([t, kind, [1, shape[0]], vals])
            out.append([t, kind, [shape[0], 1], vals])
        if len(shape) == 2:
            out.append([t, kind, shape[::-1], vals])
            out.append([t, kind, [shape[0] * shape[1]], vals])
        if shape == []:
            out.append([t, kind, [1], vals])
            out.append([{'i': 'int', 'f': 'float', 'b': 'bool'}.get(kind, 'none'), vals[0]] if kind in 'ifb' else ['none'])
    elif t in ('P', 'S', 'D', 'V'):
        out.append([t, ('b' if spec[1][0] == 'a' else 'a') + spec[1][1:]] + spec[2:])
        if t != 'V':
            out.insert(0, [t, spec[1][0] + ('' if spec[1][1:] else '2')] + spec[2:])   # base class <-> subclass, same arguments
        if t in ('P', 'S') and len(spec) == 3:
            out.append([t, spec[1], spec[2], ['int', 3]])
        other = {'P': 'S', 'S': 'P'}.get(t)
        if other:
            out.append([other, spec[1]] + spec[2:4])
    elif t == 'dict':
        out += [['fdict', spec[1]], ['tuple', [['tuple', [k, v]] for k, v in spec[1]]]]
    elif t == 'fdict':
        out += [['dict', spec[1]]]
    elif t == 'fset':
        out += [['fmset', spec[1]], ['tuple', spec[1]]]
        if spec[1]:
            out.append(['fmset', spec[1] + spec[1][:1]])
    elif t == 'fmset':
        if spec[1]:
            out.append(['fmset', spec[1] + spec[1][:1]])
    elif t == 'tf' and spec[1] == 'SimplexChild':
        out.append(['tf', 'SimplexChild', spec[2], 1 - spec[3]])
        out.append(['tf', 'SimplexEdge', spec[2] + 1, spec[3]])
    elif t == 'ev' and spec[1] in ('add', 'mul'):
        out.append(['ev', 'mul' if spec[1] == 'add' else 'add', spec[2], spec[3]])
    elif t == 'mesh':
        out.append(['mesh', spec[1], spec[2], spec[3] + 1])
    elif t == 'method':
        if spec[1] in ('Direct', 'Newton'):
            out.append(['method', 'Newton' if spec[1] == 'Direct' else 'Direct', spec[2]])
        if spec[1] == 'Newton':
            out.append(['method', 'ReuseNewton', spec[2]])
        # one argument changed, one argument dropped (generated values never equal the defaults)
        for i, (k, v) in enumerate(spec[2]):
            alts = [['float', x] for x in METHOD_KW.get(spec[1], {}).get(k, []) if not isinstance(x, list)] + [x for x in METHOD_KW.get(spec[1], {}).get(k, []) if isinstance(x, list)]
            if k == 'atol':
                alts = [['float', 1e-8], ['float', 1e-6]]
            for a in alts:
                if a != v:
                    out.insert(0, ['method', spec[1], spec[2][:i] + [[k, a]] + spec[2][i + 1:]])
                    break
            if not (spec[1] == 'Pseudotime' and k in ('inertia', 'timestep')):
                out.append(['method', spec[1], spec[2][:i] + spec[2][i + 1:]])
    elif t == 'fn':
        out.insert(0, ['fn', spec[1], spec[2][:-1] + [spec[2][-1] + 2.]])
        out.append(['fn', 'dot' if spec[1] == 'axpy' else 'axpy', spec[2]])
    elif t == 'system':
        out.append(['system', spec[1], spec[2] + 1])
    return out


def _valid(spec):
    '''Containers that need Python-hashable members only get such members (a generator constraint, not a property of nutils).'''
    t = spec[0]
    if t in ('tuple', 'list'):
        return all(_valid(x) for x in spec[1])
    if t in ('fset', 'fmset'):
        byeq = {}
        for x in spec[1]:
            if byeq.setdefault(_eqkey(x), core.canon(spec_key(x))) != core.canon(spec_key(x)):
                return False
        return all(_py_hashable(x) and _valid(x) for x in spec[1])
    if t in ('dict', 'fdict'):
        byeq = {}
        for k, v in spec[1]:
            if byeq.setdefault(_eqkey(k), core.canon(spec_key(k))) != core.canon(spec_key(k)):
                return False
        return all(_py_hashable(k) and (t == 'dict' or _py_hashable(v)) and _valid(v) for k, v in spec[1])
    if t in ('P', 'S', 'D', 'V'):
        return all(_py_hashable(x) and _valid(x) for x in spec[2:])
    return True


def gen_pool(rng, n):
    pool = []
    keys = set()

    def add(s):
        try:
            k = core.canon(spec_key(s))
        except Exception:
            return
        if k not in keys and len(pool) < 10 and _valid(s):
            keys.add(k)
            pool.append(s)
    while len(pool) < n:
        s = gen_spec(rng)
        add(s)
        nm = near_misses(s, rng)
        rng.shuffle(nm)
        for m in nm[:rng.choice([0, 1, 2])]:
            add(m)
    return pool


def gen_case(rng, index, tier):
    if rng.random() < 0.07:
        # other interpreter, other hash seed: order-free containers of strings are what a seed-dependent hash would get wrong
        extra = [['fset', [['str', w] for w in rng.sample(['a', 'b', 'ab', 'abc', 'c', 'bc', 'x', 'yz', 'None', '1'], rng.choice([2, 3, 5]))]],
                 ['dict', [[['str', w], ['int', i]] for i, w in enumerate(rng.sample(['a', 'b', 'ab', 'abc', 'c', 'bc', 'x'], rng.choice([2, 3, 4])))]],
                 ['fmset', [['str', w] for w in rng.sample(['a', 'b', 'ab', 'abc', 'c'], 3)] + [['bytes', '61']]],
                 ['fdict', [[['str', w], ['float', 0.5]] for w in rng.sample(['k', 'kk', 'kkk', 'q'], 3)]]]
        extra.append(['mesh', 'integral', 'prod', rng.choice([1, 2])])
        return dict(kind='xproc', pool=gen_pool(rng, 8) + gen_pool(rng, 8) + extra, hashseed=rng.choice([1, 2, 12345, 'random']))
    pool = gen_pool(rng, rng.choice([3, 4, 5, 6, 8]))
    ops = []
    for _ in range(rng.choice([5, 10, 18, 30] + ([60] if tier == 'thorough' else []))):
        r = rng.random()
        if r < 0.45:
            i = rng.randrange(len(pool))
            ops.append(['build', i, rng.randrange(nroutes(pool[i])) + (100 if rng.random() < 0.12 else 0)])
        elif r < 0.62:
            ops.append(['drop', rng.randrange(16)])
        elif r < 0.72:
            ops.append(['gc', rng.choice([0, 1, 2])])
        elif r < 0.82:
            ops.append(['churn', rng.choice([10, 100, 1000]), rng.choice([16, 24, 32, 64])])
        elif r < 0.88:
            ops.append(['pickle', rng.randrange(16)])
        elif r < 0.92:
            ops.append(['compare', rng.randrange(len(pool)), rng.randrange(len(pool)), rng.randrange(8)])
        else:
            ops.append(['cached', rng.randrange(4), rng.choice([1, 2, 3]), rng.randrange(1 << 16)])
    # twins that differ in the sign of a zero only (equal for Python, different values) are compared with each other, fresh, a few times
    twins = [(i, j) for i in range(len(pool)) for j in range(len(pool)) if i != j and _negzero_variant(pool[i]) == pool[j]]
    for i, j in twins[:2]:
        for _ in range(rng.choice([1, 2])):
            a, b = (i, j) if rng.random() < 0.5 else (j, i)
            ops.insert(rng.randrange(len(ops) + 1), ['compare', a, b, rng.randrange(8)])
    return dict(kind='history', pool=pool, ops=ops)


# ---------------------------------------------------------------------- execution

def _hash(v):
    from nutils import types
    return types.nutils_hash(v).hex()


def _content_check(spec, v):
    '''An array container must hold exactly the numbers it was given (whatever the element width or signedness they arrived in).'''
    if spec[0] == 'arr' and spec[1] in 'iu':
        got = numpy.asarray(v).ravel().tolist()
        if [int(x) for x in got] != [int(x) for x in spec[3]]:
            return f'array data built from {spec} holds {got[:6]}'
    return None


def canonical_keys(pool):
    '''Identity of the value each spec of the pool denotes.  For values taken from meshes the spec does not determine the value injectively
    (the references of a refined 1-element line are the references of a 2-element line; the first reference of every line mesh is the same
    line element): such specs are merged when their plainest builds, alive at the same time, are one object (all of these types are interned).'''
    keys = [core.canon(spec_key(s)) for s in pool]
    idx = [i for i, s in enumerate(pool) if s[0] == 'mesh']
    if len(idx) > 1:
        vals = {}
        for i in idx:
            try:
                vals[i] = build(pool[i], 0)
            except Exception:
                pass
        for a in idx:
            for b in idx:
                if a < b and a in vals and b in vals and vals[a] is vals[b]:
                    keys[b] = keys[a]
        del vals
    return keys


def _check_pairs(handles, model):
    '''Invariants over all live handles: (handle id) -> (spec index, value).'''
    byspec = {}
    for hid, (si, v) in handles.items():
        byspec.setdefault(si, []).append(v)
    return byspec


TFS = None


def _tf_items():
    from nutils import transform, types
    return [transform.SimplexChild(2, 1), transform.Square(types.arraydata([[2., 0.], [1., 3.]]), types.arraydata([.5, -1.])), transform.SimplexChild(2, 0),
            transform.Square(types.arraydata([[0., 1.], [1., 0.]]), types.arraydata([0., 0.]))]


def run_history(case):
    from nutils import types
    pool = case['pool']
    keys = canonical_keys(pool)
    # pristine phase: model hash of every spec by its plainest route
    model = []
    refused = set()
    for si, s in enumerate(pool):
        try:
            v = build(s, 0)
            model.append(_hash(v))
        except TypeError as e:
            if 'unhashable' in str(e):
                return viol('E-unhashable', f'{s} cannot be hashed: {e}'[:300], case, [])
            raise
        except ValueError as e:
            if s[0] == 'arr' and s[1] == 'u' and any(x >= 2**63 for x in s[3]):
                refused.add(si)   # not representable in the canonical element type: refusing is the right answer
                model.append('refused:%d' % si)
                continue
            raise
        bad = _content_check(s, v)
        if bad:
            return viol('H-value-altered', bad, case, [])
        del v
    gc.collect()
    # injectivity on the pool (pairs of different values never share a hash)
    seen = {}
    for i, h in enumerate(model):
        if h in seen and keys[seen[h]] != keys[i]:
            return viol('H-collision', f'different values share a nutils hash: {pool[seen[h]]} and {pool[i]}', case, [])
        seen[h] = i
    handles = {}
    order = []
    log = []
    nh = 0
    events_since_build = {}
    nontrivial = False
    probes = {}
    tf = _tf_items()
    keep = []

    def probe(k):
        probes[k] = probes.get(k, 0) + 1

    def invariants(context):
        byspec = {}
        for hid, (si, v) in handles.items():
            h = _hash(v)
            if h != model[si]:
                return ('H-unstable', f'{context}: value of spec {pool[si]} now hashes to {h[:12]}, pristine hash {model[si][:12]}')
            byspec.setdefault(si, []).append(v)
        for si, vs in byspec.items():
            if is_interned(pool[si]) and any(v is not vs[0] for v in vs[1:]):
                return ('I-interning-lost', f'{context}: two live structurally equal values of interned spec {pool[si]} are different objects')
        sis = sorted(byspec)
        for a in range(len(sis)):
            for b in range(a + 1, len(sis)):
                va, vb = byspec[sis[a]][0], byspec[sis[b]][0]
                if va is vb and keys[sis[a]] != keys[sis[b]]:
                    return ('I-aliasing', f'{context}: different values {pool[sis[a]]} and {pool[sis[b]]} are one object')
        return None
    for op in case['ops']:
        kind = op[0]
        bad = None
        if kind == 'build':
            si, route = op[1], op[2]
            if si in refused:
                continue
            try:
                v = build(pool[si], route)
            except Exception as e:
                return viol('E-build-raised', f'building {pool[si]} by route {route} raised {type(e).__name__}: {e}'[:300], case, log)
            nh += 1
            handles[nh] = (si, v)
            order.append(nh)
            if events_since_build.get(si):
                nontrivial = True
            events_since_build[si] = 0
            log.append(('build', si, route))
            probe('build_route_%d' % (route % 100) if route < 100 else 'build_via_pickle')
            del v
        elif kind == 'drop':
            if order:
                hid = order.pop(op[1] % len(order))
                si = handles.pop(hid)[0]
                events_since_build[si] = events_since_build.get(si, 0) + 1
                log.append(('drop', si))
                probe('drop')
        elif kind == 'gc':
            gc.collect(op[1])
            for si in events_since_build:
                events_since_build[si] += 1
            log.append(('gc', op[1]))
            probe('gc')
        elif kind == 'churn':
            # allocate and free objects / arrays of a given size so that freed addresses are handed out again
            tmp = [numpy.full(op[2] // 8, float(i)) for i in range(op[1] // 10)] + [object() for _ in range(op[1])] + [(i, str(i)) for i in range(op[1] // 4)]
            del tmp
            log.append(('churn', op[1], op[2]))
            probe('churn')
        elif kind == 'pickle':
            if order:
                hid = order[op[1] % len(order)]
                si, v = handles[hid]
                if has_fn(pool[si]):
                    continue
                try:
                    w = pickle.loads(pickle.dumps(v))
                except Exception as e:
                    return viol('E-pickle-raised', f'pickle round trip of {pool[si]} raised {type(e).__name__}: {e}'[:300], case, log)
                if _hash(w) != model[si]:
                    bad = ('H-unstable-after-pickle', f'pickle round trip of {pool[si]} changed the hash')
                elif is_interned(pool[si]) and w is not v:
                    bad = ('I-interning-lost-after-pickle', f'pickle round trip of live interned value {pool[si]} gives a different object')
                nh += 1
                handles[nh] = (si, w)
                order.append(nh)
                log.append(('pickle', si))
                probe('pickle_roundtrip')
                del v, w
        elif kind == 'compare':
            # freshly built values compared with == (and used as dictionary keys) BEFORE anybody asked for their hash: looking at values must not change them
            si, sj = op[1] % len(pool), op[2] % len(pool)
            # only values of the same make-up are compared (twins that differ in a leaf): comparing, say, a numpy scalar with a tuple that holds
            # an expression makes numpy try to turn the expression into an array, which has nothing to do with this property (and does not end)
            if si not in refused and sj not in refused and _skeleton(pool[si]) == _skeleton(pool[sj]):
                try:
                    x, y = build(pool[si], op[3] % nroutes(pool[si])), build(pool[sj], op[3] % nroutes(pool[sj]))
                    try:
                        x == y
                        y == x
                    except Exception:
                        pass    # values with array members may refuse a truth value: not the concern of this property
                    hx, hy = _hash(x), _hash(y)
                except Exception as e:
                    return viol('E-build-raised', f'building {pool[si]} / {pool[sj]} raised {type(e).__name__}: {e}'[:300], case, log)
                if hx != model[si]:
                    bad = ('H-unstable', f'after comparing a fresh value of {pool[si]} with a fresh value of {pool[sj]} the former hashes to {hx[:12]}, pristine hash {model[si][:12]}')
                elif hy != model[sj]:
                    bad = ('H-unstable', f'after comparing a fresh value of {pool[sj]} with a fresh value of {pool[si]} the former hashes to {hy[:12]}, pristine hash {model[sj][:12]}')
                del x, y
            log.append(('compare', si, sj))
            probe('compare_fresh_values')
        elif kind == 'cached':
            from nutils import transform
            r = numpy.random.RandomState(op[3])
            for rep in range(op[2]):
                # a transform item built for this call only (freed afterwards: its address may be handed to the next one) ...
                if (op[1] + rep) % 2:
                    lin = (r.randint(-4, 5, size=(2, 2)) / 2. + numpy.eye(2) * 5)
                    t = transform.Square(types.arraydata(lin), types.arraydata(r.randint(-4, 5, size=2) / 2.))
                else:
                    t = tf[op[1] % len(tf)]
                # ... applied to a long-lived immutable array or to a fresh one (freed afterwards: its buffer address may be re-used)
                if keep and r.rand() < 0.5:
                    pts = keep[r.randint(len(keep))]
                else:
                    pts = types.frozenarray(r.randint(-8, 9, size=(t.fromdims if r.rand() < 0.5 else 3, t.fromdims)) / 4., copy=False)
                    if len(keep) < 3 and r.rand() < 0.4 and t.fromdims == 2:
                        keep.append(pts)
                variants = [pts]
                if pts.dtype == float and r.rand() < 0.3:
                    variants.append(pts.view(pts.dtype.newbyteorder()))   # same buffer, same shape and strides, other dtype
                if pts.shape[0] == pts.shape[1] and pts.shape[0] > 1 and r.rand() < 0.6:
                    variants.append(pts.T)                                # same buffer, same shape and dtype, other strides
                for q in variants:
                    got = t.apply(q)
                    want = numpy.dot(q, t.linear.T) + t.offset
                    if got.shape != want.shape or not numpy.array_equal(got, want):
                        bad = ('C-stale-cache', f'lru-cached {type(t).__name__}.apply returned {numpy.asarray(got).tolist()} for points {q.tolist()} (dtype {q.dtype.str}), expected {want.tolist()}')
                        break
                del pts, t, variants
                if bad:
                    break
            log.append(('cached', op[1], op[2]))
            probe('lru_cached_call')
        if bad is None:
            bad = invariants(str(op))
        if bad:
            return viol(bad[0], bad[1], case, log)
    # reach probe: intern tables do not keep dead values alive
    return done(case, log, probes, nontrivial)


def viol(vclass, detail, case, log):
    sig = core.sha([case.get('pool'), case.get('ops')])
    return dict(verdict='violation', vclass=vclass, detail=detail, digest=sig, sig=sig, steps=len(log), fired={}, family=case['kind'], nontrivial=True, probes={}, trace=[str(l) for l in log])


def done(case, log, probes, nontrivial):
    sig = core.sha([case.get('pool'), case.get('ops')])
    fired = {k: v for k, v in probes.items() if k in ('drop', 'gc', 'churn', 'pickle_roundtrip', 'build_via_pickle', 'other_hashseed_interpreter')}
    res = dict(verdict='pass', vclass=None, detail=None, digest=sig, sig=sig, steps=len(log), fired=fired, family=case['kind'], nontrivial=bool(nontrivial), probes=probes)
    if case.get('_index', 1) % 311 == 0:
        res['sample'] = dict(kind=case['kind'], pool=case['pool'][:6], history=[list(map(str, l)) for l in log][:30])
    return res


CHILD = r'''
import sys, json, pickle
sys.path.insert(0, %r)
from vsim import core
core.bootstrap()
from vsim.props import c17
pool = json.load(sys.stdin)
out = []
for s in pool:
    row = []
    for route in list(range(c17.nroutes(s))) + [100]:
        try:
            row.append(c17._hash(c17.build(s, route)))
        except TypeError as e:
            row.append('unhashable' if 'unhashable' in str(e) else 'TypeError:' + str(e)[:80])
        except Exception as e:
            row.append(type(e).__name__ + ':' + str(e)[:80])
    try:
        import base64
        row.append('P:-' if c17.has_fn(s) else 'P:' + base64.b64encode(pickle.dumps(c17.build(s, 0))).decode())
    except Exception as e:
        row.append('P:!' + type(e).__name__ + ':' + str(e)[:80])
    out.append(row)
print(json.dumps(out))
'''


def run_xproc(case):
    pool = case['pool']
    here = []
    for s in pool:
        row = []
        for route in list(range(nroutes(s))) + [100]:
            try:
                row.append(_hash(build(s, route)))
            except TypeError as e:
                row.append('unhashable' if 'unhashable' in str(e) else 'TypeError:' + str(e)[:80])
            except Exception as e:
                row.append(type(e).__name__ + ':' + str(e)[:80])
        here.append(row)
    env = dict(os.environ, PYTHONHASHSEED=str(case['hashseed']))
    p = subprocess.run([sys.executable, '-c', CHILD % core.VERIF], input=json.dumps(pool).encode(), capture_output=True, env=env, timeout=80)
    if p.returncode != 0:
        return dict(verdict='harness', vclass='xproc-child-failed', detail=p.stderr.decode()[-800:])
    there = json.loads(p.stdout.decode().strip().splitlines()[-1])
    pickled = [row.pop() for row in there]
    keys = canonical_keys(pool)
    log = []
    seen = {}
    # values pickled by the other interpreter, unpickled here: same hash, and the same object as a live local one if interned
    import base64
    for s, a, pk in zip(pool, here, pickled):
        if any(':' in h or h.startswith('unhashable') for h in a):
            continue   # reported by the loop below
        if pk == 'P:-':
            continue
        if pk.startswith('P:!'):
            return viol('E-pickle-raised', f'{s}: pickling in the child interpreter failed: {pk[3:]}', case, log)
        local = build(s, 0)
        try:
            v = pickle.loads(base64.b64decode(pk[2:]))
        except Exception as e:
            return viol('E-pickle-raised', f'{s}: a pickle written by another interpreter cannot be loaded: {type(e).__name__}: {e}'[:300], case, log)
        if _hash(v) != a[0]:
            return viol('H-interpreter-dependent', f'{s}: value pickled in an interpreter with PYTHONHASHSEED={case["hashseed"]} hashes to {_hash(v)[:10]} here, built here {a[0][:10]}', case, log)
        if is_interned(s) and v is not local:
            return viol('I-interning-lost-after-pickle', f'{s}: unpickling a value written by another interpreter gives a second object while an equal one is alive', case, log)
        del v, local
    for i, (s, a, b) in enumerate(zip(pool, here, there)):
        if s[0] == 'arr' and s[1] == 'u' and any(x >= 2**63 for x in s[3]):
            if all(h.startswith('ValueError') for h in a + b):
                continue   # refused here and there: right
            return viol('H-value-altered', f'{s} is not representable in the canonical element type but was accepted: {[h[:10] for h in a + b]}', case, log)
        if any(h.startswith(('TypeError', 'unhashable')) for h in a + b):
            return viol('E-unhashable', f'{s}: {[h for h in a + b if h.startswith(("TypeError", "unhashable"))][0]}', case, log)
        errs = [h for h in a + b if ':' in h]
        if errs:
            return viol('E-build-raised', f'{s}: {errs[0]}', case, log)
        if len(set(a)) != 1:
            return viol('H-route-dependent', f'{s} hashes differently by route: {[h[:10] for h in a]}', case, log)
        if a != b:
            return viol('H-interpreter-dependent', f'{s} hashes differently in an interpreter with PYTHONHASHSEED={case["hashseed"]}: {[h[:10] for h in a]} vs {[h[:10] for h in b]}', case, log)
        if a[0] in seen and keys[seen[a[0]]] != keys[i]:
            return viol('H-collision', f'different values share a nutils hash: {pool[seen[a[0]]]} and {s}', case, log)
        seen[a[0]] = i
        log.append(('xproc', i))
    return done(case, log, {'other_hashseed_interpreter': 1, 'xproc_specs': len(log), 'xproc_hashes': sum(len(r) for r in here)}, True)


def worker_init():
    import nutils.types, nutils.transform, nutils.evaluable, nutils.mesh, nutils.solver, nutils.function
    from . import c17_a, c17_b


def _neutralise(spec, inside=False):
    '''`spec` with the negative zeros inside Singleton / DataClass / frozendict values (the kinds the known finding is about) replaced by 0.375.'''
    if isinstance(spec, list):
        if spec[:1] == ['float'] and len(spec) == 2 and isinstance(spec[1], float) and spec[1] == 0 and str(spec[1]) == '-0.0':
            return ['float', 0.375] if inside else spec
        here = inside or (bool(spec) and spec[0] in ('S', 'D', 'fdict'))
        return [_neutralise(x, here) for x in spec]
    return spec


def _has_negzero(pool):
    return '-0.0' in json.dumps(pool)


def run_case(case):
    import treelog, warnings
    warnings.simplefilter('ignore')
    with treelog.set(treelog.NullLog()):
        if case['kind'] == 'xproc':
            return run_xproc(case)
        res = run_history(case)
        if res.get('verdict') == 'violation' and _has_negzero(case['pool']):
            # Is it the known finding (intern tables of Singleton / DataClass keyed on Python equality of the arguments; frozendict.__eq__ adopting
            # the storage of an equal dictionary)?  Only if the violation disappears when the negative zeros INSIDE VALUES OF THOSE KINDS are
            # replaced by a float that is equal to nothing else in the pool - a conflation anywhere else (plain Immutable, tuples, ...) stays a violation.
            c2 = copy.deepcopy(case)
            c2['pool'] = [_neutralise(sp) for sp in c2['pool']]
            res2 = run_history(c2)
            if res2.get('verdict') == 'pass':
                res['vclass'] = 'I-python-equal-values-conflated'
                res['detail'] = 'only with arguments that are equal for Python but are different values (0.0 and -0.0): ' + str(res['detail'])
        return res


def shrink_candidates(case):
    c = case
    if c['kind'] == 'history':
        for red in shrink.list_reductions(c['ops']):
            yield shrink.with_key(c, 'ops', red)
    pool = c['pool']
    if len(pool) > 1:
        for i in range(len(pool)):
            cc = copy.deepcopy(c)
            cc['pool'] = pool[:i] + pool[i + 1:]
            if c['kind'] == 'history':
                ops = []
                for op in cc['ops']:
                    if op[0] == 'build':
                        if op[1] == i:
                            continue
                        if op[1] > i:
                            op = ['build', op[1] - 1, op[2]]
                    ops.append(op)
                cc['ops'] = ops
            yield cc
