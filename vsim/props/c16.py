'''C16 - parallel evaluation equals serial evaluation (procsim).  DESIGN.md 5.'''

import os, sys, json, random, copy, traceback, linecache, hashlib
import numpy
from .. import core, procsim, workloads, shrink
from ..procsim import K

ID = 'C16'
LEVEL = 'exploration'
CASE_TIMEOUT = 150.0
CHUNK = 4
RULE = ('cases = seeded (workload family+sizes+dtype, worker count, granularity sync|line, scheduling strategy+decision tape, fault plan); '
        'each executed once under the baton scheduler over real forked processes; distinct = SHA-1 of the recorded event log '
        '(process, kind, object ordinal, value) i.e. a distinct interleaving/fault history; non-trivial = at least two processes ran and at least one context switch or fault occurred. A few per cent of the cases are kill-point sweeps: one small program and one schedule, a worker killed at EVERY one of its yield points in turn (within a wall budget; reach probe killsweep_*)')
ASSUMPTIONS = [
    'CPU-level atomicity is not modelled: between two yield points the baton holder runs alone (races are detected by happens-before on bytes written, not by manifestation)',
    'the lock stub has POSIX-semaphore semantics (non-recursive, not robust: a killed holder never releases), as multiprocessing.Lock',
    'pre-emption granularity is synchronisation operations (sync) or Python lines of generated code, parallel.range.__next__ and Topology._locate (line); no bytecode- or C-level pre-emption',
    'kernel fork/mmap/pipe/SIGKILL semantics are trusted',
    'sampled schedules and fault sequences: evidence, not proof',
]
REAL_VS_STUB = {
    'real': ['nutils.parallel (fork/_fork/_wait/range/ctxrange/shempty/shzeros)', 'nutils.evaluable.compile and the generated scripts', 'Topology._locate', 'Sample.integrate/eval', 'os.fork/waitpid/_exit/kill syscalls', 'anonymous shared mmap'],
    'stub': ['multiprocessing.Lock and RawValue (shared-memory stub under the scheduler)', 'choice of which process runs', 'fault injection (KILL, RAISE, FORK_FAIL, ALLOC_FAIL, BOMB)'],
}

EXPR_FAMILIES = ['P1', 'P2', 'P3', 'P4', 'P5', 'P6', 'P7', 'P9', 'P10', 'P14', 'P15', 'P15', 'P16', 'P17', 'P18', 'P19', 'P20', 'P21', 'P21']
YIELD_KINDS = {K[k] for k in ('FORK', 'EXIT', 'WAIT', 'KILLSIG', 'ACQ', 'REL', 'RGET', 'RSET', 'LINE')}


def budget(tier):
    if tier == 'quick':
        return dict(n=420, wall=75, dup=24)
    return dict(n=9000, wall=1500, dup=120)


# ---------------------------------------------------------------------- generation

def gen_sched(rng, nslots=6):
    r = rng.random()
    if r < 0.55:
        p = rng.choice([0.05, 0.3, 0.7])
        L = rng.choice([40, 150, 400])
        return dict(kind='tape', p=p, tape=[(rng.randint(1, 6) if rng.random() < p else 0) for _ in range(L)])
    if r < 0.75:
        d = rng.choice([1, 2, 3])
        prio = [rng.randint(10, 99) for _ in range(nslots + 6)]
        change = [[rng.randrange(0, 120), rng.randint(0, 9)] for _ in range(d)]
        return dict(kind='pct', prio=prio, change=change)
    if r < 0.9:
        L = 200
        return dict(kind='starve', victim=rng.randrange(0, 4), tape=[(rng.randint(1, 6) if rng.random() < 0.3 else 0) for _ in range(L)])
    return dict(kind='rr')


def gen_faults(rng, nprocs, gran, allow_root=True):
    faults = []
    nf = rng.choice([1, 1, 1, 2])
    for _ in range(nf):
        kinds = ['KILL', 'KILL', 'KILL', 'FORK_FAIL', 'ALLOC_FAIL', 'WAIT_ECHILD']
        if gran == 'line':
            kinds += ['RAISE', 'RAISE', 'RAISE']
        k = rng.choice(kinds)
        if k == 'KILL':
            faults.append(dict(kind='KILL', proc=rng.randrange(1, nprocs), ykind='ANY', place=dict(u=rng.random(), inflight=rng.random() < 0.5)))
        elif k == 'RAISE':
            faults.append(dict(kind='RAISE', proc=rng.randrange(0 if allow_root else 1, nprocs), ykind='LINE', place=dict(u=rng.random(), inflight=rng.random() < 0.5)))
        elif k == 'FORK_FAIL':
            faults.append(dict(kind='FORK_FAIL', proc=0, n=rng.randint(1, max(1, nprocs - 1))))
        elif k == 'WAIT_ECHILD':
            # the exit status of a worker is lost (host application ignores SIGCHLD): usually together with a worker that fails
            faults.append(dict(kind='WAIT_ECHILD', proc=0, n=rng.randint(1, max(1, nprocs - 1))))
            if rng.random() < 0.75:
                faults.append(dict(kind='KILL', proc=rng.randrange(1, nprocs), ykind='ANY', place=dict(u=rng.random(), inflight=rng.random() < 0.5)))
                break
        else:
            faults.append(dict(kind='ALLOC_FAIL', proc=0, n=rng.randint(1, 3)))
    return faults


def gen_case(rng, index, tier):
    r = rng.random()
    if r < 0.72:
        prog = workloads.gen_prog(rng, EXPR_FAMILIES)
        if tier == 'thorough' and rng.random() < 0.3:
            prog['n'] = rng.choice([8, 12, 16])   # deeper bounds in the thorough tier
        kind = 'expr'
    elif r < 0.84:
        prog = gen_fem(rng)
        kind = 'fem'
    elif r < 0.95:
        prog = gen_locate(rng)
        kind = 'locate'
    else:
        prog = dict(family='P13', n=rng.choice([2, 3, 5]), m=rng.choice([1, 2]), inner=workloads.gen_prog(rng, ['P1', 'P4', 'P5'], small=True), dseed=rng.randrange(1 << 30))
        kind = 'nested'
    nprocs = rng.choice([2, 2, 2, 3, 3, 3, 4, 4, 5] + ([6, 7] if tier == 'thorough' else []))
    gran = 'line' if rng.random() < 0.3 else 'sync'
    case = dict(kind=kind, prog=prog, nprocs=nprocs, compile_procs=rng.choice([2, nprocs, nprocs, 7, 1]), gran=gran,
                sched=gen_sched(rng), faults=[], cfg=dict(cache=rng.random() < 0.7, twice=rng.random() < 0.3, after=rng.random() < 0.4, foreign_child=rng.random() < 0.15))
    if rng.random() < (0.10 if tier == 'thorough' else 0.04) and kind in ('expr', 'locate'):
        # kill-point sweep on a small instance
        case.update(sweep=True, gran='sync', nprocs=rng.choice([2, 2, 3]), faults=[], budget_s=30 if tier == 'thorough' else 15)
        case['cfg']['twice'] = False
        for key in ('n', 'npts'):
            if key in prog:
                prog[key] = min(prog[key], 3)
        if prog.get('missing', -1) >= prog.get('npts', 0) > 0:
            prog['missing'] = prog['npts'] - 1
        if 'nrun' in prog:
            prog['nrun'] = min(prog['nrun'], prog['n'])
        return case
    if rng.random() < 0.4:
        case['faults'] = gen_faults(rng, nprocs, gran)
    elif rng.random() < 0.06:
        case['calib'] = True   # calibration: real multiprocessing primitives, free scheduling by the kernel (sanity of workloads and stub)
    return case


def gen_fem(rng):
    return dict(family='P11', mesh=rng.choice(['line', 'quad', 'tri']), nelems=rng.choice([2, 3, 4, 6, 8]) if True else 2,
                what=rng.choice(['integrate', 'integrate_vec', 'eval', 'sparse', 'integrate_multi', 'boundary', 'interfaces', 'two_samples', 'system', 'refined', 'project']), degree=rng.choice([1, 2]), btype=rng.choice(['std', 'spline', 'discont']))


def gen_locate(rng):
    npts = rng.choice([1, 2, 3, 5, 8])
    missing = rng.random() < 0.5
    return dict(family='P12', mesh=rng.choice(['line', 'quad', 'tri']), nelems=rng.choice([2, 3, 4]), npts=npts,
                missing=(rng.randrange(npts) if missing else -1), skip_missing=rng.random() < 0.4, pseed=rng.randrange(1 << 30))


# ---------------------------------------------------------------------- workloads -> callables

def _mesh(prog):
    from nutils import mesh, function
    ne = prog['nelems']
    if prog['mesh'] == 'line':
        topo, geom = mesh.line(ne)
        geom = geom[numpy.newaxis] if geom.ndim == 0 else geom
    elif prog['mesh'] == 'quad':
        topo, geom = mesh.rectilinear([max(1, ne // 2), 2])
    else:
        topo, geom = mesh.unitsquare(max(1, ne // 2), 'triangle')
    return topo, geom


def make_call(case):
    '''Returns (call, script, trace_codes): `call()` performs the operation under test with nutils' public API.
    Every invocation of make_call compiles afresh, so the returned callable has pristine per-function state (first_run).'''
    from nutils import evaluable, parallel, function
    kind = case['kind']
    prog = case['prog']
    if kind == 'expr':
        funcs, args = workloads.build(prog)
        with parallel.maxprocs(case['compile_procs']):
            f = evaluable.compile(funcs, cache_const_intermediates=case['cfg']['cache'])
        script = ''.join(linecache.cache[f.__code__.co_filename][2])
        return (lambda: f(args)), script, ()
    if kind == 'fem':
        topo, geom = _mesh(prog)
        btype = prog['btype']
        if btype == 'spline' and prog['mesh'] == 'tri':
            btype = 'std'
        basis = topo.basis(btype, degree=prog['degree'])
        x = geom
        J = function.J(geom)
        what = prog['what']
        deg = 2 * prog['degree']
        if what == 'integrate':
            call = lambda: topo.integrate(numpy.sum(x * x) * J, degree=deg)
        elif what == 'integrate_vec':
            call = lambda: topo.integrate(basis * numpy.sum(x) * J, degree=deg)
        elif what == 'integrate_multi':
            call = lambda: topo.integrate([basis * J, numpy.sum(x) * J, basis[:, numpy.newaxis] * basis * J], degree=deg)
        elif what == 'eval':
            smp = topo.sample('gauss', deg)
            call = lambda: smp.eval([basis, x])
        elif what == 'sparse':
            call = lambda: function.eval(function.as_csr(topo.integral(basis[:, numpy.newaxis] * basis * J, degree=deg)))
        elif what == 'boundary':
            bnd = topo.boundary
            call = lambda: bnd.integrate([basis * function.J(geom), numpy.sum(x * function.normal(geom)) * function.J(geom)], degree=deg)
        elif what == 'interfaces':
            ifaces = topo.interfaces
            call = lambda: ifaces.integrate([function.jump(basis) * function.J(geom), function.mean(basis) * numpy.sum(x) * function.J(geom)], degree=deg)
        elif what == 'two_samples':
            # several integrals over different samples in one evaluation: outer loops of different lengths side by side
            ints = [topo.integral(basis * J, degree=deg), topo.boundary.integral(numpy.sum(x) * function.J(geom), degree=deg), topo.integral(numpy.sum(x * x) * J, degree=1)]
            call = lambda: function.eval(ints)
        elif what == 'system':
            from nutils import solver
            u = function.dotarg('u', basis)
            v = function.dotarg('v', basis)
            res = topo.integral((numpy.sum(function.grad(u, geom) * function.grad(v, geom)) + u * v + u * u * v - v * numpy.sum(x)) * J, degree=deg)
            system = solver.System(res, trial='u', test='v')
            u0 = numpy.arange(1., len(basis) + 1) / 8

            def call():
                sysargs, xx = system.deconstruct({'u': u0.copy()}, {})
                jac, r = system.assemble_jacobian_residual(sysargs, xx)
                return jac.export('dense'), r
        elif what == 'refined':
            rtopo = topo.refined_by([0]) if len(topo) else topo
            rbasis = rtopo.basis({'std': 'h-std', 'spline': 'th-std', 'discont': 'discont'}[btype], degree=prog['degree'])
            call = lambda: rtopo.integrate([rbasis * J, numpy.sum(x) * J], degree=deg)
        elif what == 'project':
            call = lambda: topo.project(numpy.sum(x * x), onto=basis, geometry=geom, degree=deg)
        else:
            raise ValueError(what)
        return call, None, ()
    if kind == 'locate':
        from nutils import topology
        topo, geom = _mesh(prog)
        rng = random.Random(prog['pseed'])
        nd = topo.ndims
        pts = numpy.array([[rng.randint(1, 15) / 16 for _ in range(nd)] for _ in range(prog['npts'])])
        if prog['mesh'] == 'line':
            pts = pts * prog['nelems']
        elif prog['mesh'] == 'quad':
            pts = pts * [max(1, prog['nelems'] // 2), 2]
        # a mildly nonlinear geometry, so that structured topologies cannot take their affine shortcut
        geom = geom * (1 + geom / 16)
        pts = pts * (1 + pts / 16)
        if prog['missing'] >= 0:
            pts[prog['missing']] = -5.5

        def call():
            smp = topo.locate(geom, pts, eps=1e-10, skip_missing=prog['skip_missing'])
            return smp.eval(geom), numpy.asarray(smp.npoints)
        return call, None, (topology.Topology._locate.__code__,)
    if kind == 'nested':
        # P13: a compiled function with its own (parallel-compiled) loops called inside a parallel region
        funcs, args = workloads.build(prog['inner'])
        with parallel.maxprocs(case['compile_procs']):
            f = evaluable.compile(funcs, cache_const_intermediates=case['cfg']['cache'])
        n = prog['n']

        def call():
            inner = _flat(f(args))
            total = [parallel.shzeros(a.shape, dtype=a.dtype) for a in inner]
            import multiprocessing
            lock = parallel.multiprocessing.Lock()
            with parallel.ctxrange('outer', n) as it:
                for i in it:
                    vals = _flat(f(args))
                    with lock:
                        for t, v in zip(total, vals):
                            t += v * (i + 1)
            return tuple(total)
        return call, None, ()
    raise ValueError(kind)


def _flat(t):
    if isinstance(t, (tuple, list)):
        out = []
        for x in t:
            out.extend(_flat(x))
        return out
    return [numpy.asarray(t)]


def _equal(out, ref, exact):
    a, b = _flat(out), _flat(ref)
    if len(a) != len(b):
        return f'structure differs: {len(a)} vs {len(b)} leaves'
    for k, (x, y) in enumerate(zip(a, b)):
        if x.shape != y.shape or x.dtype != y.dtype:
            return f'leaf {k}: shape/dtype {x.shape}/{x.dtype} vs {y.shape}/{y.dtype}'
        if exact or x.dtype.kind in 'biu':
            if not numpy.array_equal(x, y, equal_nan=True):
                return f'leaf {k}: values differ: {x.ravel()[:6].tolist()} vs {y.ravel()[:6].tolist()}'
        else:
            tol = 1e-10 * (1 + float(numpy.abs(y).max(initial=0)))
            if not (numpy.abs(x - y) <= tol).all():
                return f'leaf {k}: values differ beyond summation order: max {float(numpy.abs(x - y).max())}'
    return None


def _structure(t):
    if isinstance(t, (tuple, list)):
        return [_structure(x) for x in t]
    return 0


# ---------------------------------------------------------------------- execution

def _resolve_faults(case, pilot_events):
    '''Turn `place` specs into concrete "n-th yield" triggers using the fault-free pilot history.'''
    ev = pilot_events.tolist()
    out = []
    for f in case['faults']:
        f = dict(f)
        pl = f.pop('place', None)
        if pl is not None and 'n' not in f:
            p = f['proc']
            yk = K[f.get('ykind', 'ANY')]
            ords = []      # ordinal (1-based) of each counted yield of p
            inflight = []
            cnt = 0
            claimed = False
            for q, kind, obj, a, b in ev:
                if q != p:
                    continue
                if kind == K['RSET']:
                    claimed = True
                elif kind == K['RGET']:
                    claimed = False
                if kind in YIELD_KINDS and (yk == 0 or kind == yk):
                    cnt += 1
                    ords.append(cnt)
                    if claimed:
                        inflight.append(cnt)
            pool = inflight if (pl.get('inflight') and inflight) else ords
            f['n'] = pool[int(pl['u'] * len(pool))] if pool else 1
        out.append(f)
    return out


def _simulate(call, case, faults, trace_codes):
    from nutils import parallel
    sim = procsim.Sim(case['sched'], faults=faults, granularity=case['gran'], trace_codes=trace_codes)
    outcome = None
    foreign = None
    if case['cfg'].get('foreign_child'):
        # the host application has a child process of its own that has already exited (status 0) and was not yet reaped: joining the
        # workers must not mistake it for one of them
        foreign = os.fork()
        if foreign == 0:
            os._exit(0)
    try:
        with sim, parallel.maxprocs(case['nprocs']):
            try:
                out = call()
                outcome = ('return', out)
            except procsim.SimDeadlock as e:
                outcome = ('deadlock', str(e))
            except procsim.SimLivelock as e:
                outcome = ('livelock', str(e))
            except BaseException as e:
                outcome = ('raise', f'{type(e).__name__}: {e}'[:300])
    finally:
        if foreign:
            try:
                os.waitpid(foreign, 0)
            except ChildProcessError:
                pass
    info = dict(events=sim.event_list(), digest=sim.digest(), steps=int(sim.hdr[procsim.H_STEP]), fired=sim.fired_faults(),
                nslots=int(sim.hdr[procsim.H_NSLOT]), maxconc=int(sim.hdr[procsim.H_MAXCONC]), probes=sim.probes.copy(),
                dl_lock=int(sim.hdr[procsim.H_DL_LOCK]), dl_owner=int(sim.hdr[procsim.H_DL_OWNER]), evover=int(sim.hdr[procsim.H_EVOVER]),
                owner_status=int(sim.status[int(sim.hdr[procsim.H_DL_OWNER])]) if int(sim.hdr[procsim.H_DL_OWNER]) >= 0 else -1)
    sim.close()
    return outcome, info


def worker_init():
    import nutils.evaluable, nutils.parallel, nutils.topology, nutils.mesh, nutils.function, nutils.sample  # warm imports before forking cases


def run_calibration(case):
    '''Fault-free families with the REAL multiprocessing primitives and whatever interleaving the kernel produces: results must
    equal the serial run.  A sanity check of the workloads and of the stub's premise, not a deciding step (its schedule is not controlled).'''
    import treelog
    from nutils import parallel
    with treelog.set(treelog.NullLog()):
        call_ref, script, trace_codes = make_call(case)
        try:
            with parallel.maxprocs(1):
                ref = ('return', call_ref())
        except Exception as e:
            ref = ('raise', f'{type(e).__name__}: {e}'[:300])
        call = make_call(case)[0]
        try:
            with parallel.maxprocs(case['nprocs']):
                out = ('return', call())
        except Exception as e:
            out = ('raise', f'{type(e).__name__}: {e}'[:300])
    sig = core.sha(['calib', case['prog'], case['nprocs']])
    res = dict(verdict='pass', vclass=None, detail=None, digest=None, sig=sig, steps=0, fired={}, family=case['prog']['family'], nontrivial=False, probes={'calibration_real_multiprocessing': 1})
    if ref[0] != out[0]:
        res.update(verdict='violation', vclass='CAL-outcome-differs', detail=f'real parallel run: {out[0]} {out[1] if out[0] == "raise" else ""}; serial: {ref[0]}')
    elif ref[0] == 'return':
        d = _equal(out[1], ref[1], case['kind'] in ('expr', 'nested'))
        if d:
            res.update(verdict='violation', vclass='CAL-mismatch', detail=d)
    return res


def run_sweep(case):
    '''Kill-point sweep: for ONE program and ONE schedule, a worker is killed at EVERY one of its yield points in turn (complete over
    kill points for that schedule; programs and schedules stay sampled).  Every run is judged like an ordinary faulty run.'''
    import treelog
    from nutils import parallel
    with treelog.set(treelog.NullLog()), procsim.patched_parallel():
        try:
            call_ref, script, trace_codes = make_call(case)
        except Exception:
            return dict(verdict='harness', vclass='workload-build', detail=traceback.format_exc()[-1500:])
        try:
            with parallel.maxprocs(1):
                ref = ('return', call_ref())
        except Exception as e:
            ref = ('raise', f'{type(e).__name__}: {e}'[:300])
        pilot_outcome, pilot = _simulate(make_call(case)[0], case, [], trace_codes)
        res = judge(case, ref, pilot_outcome, pilot, [])
        if res['verdict'] != 'pass':
            return res
        counts = {}
        for q, kind, obj, a, b in pilot['events'].tolist():
            if kind in YIELD_KINDS and q > 0:
                counts[q] = counts.get(q, 0) + 1
        points = [(q, n) for q in sorted(counts) for n in range(1, counts[q] + 1)][:160]
        total = dict(res)
        total['probes'] = dict(res.get('probes', {}))
        fired = {}
        nknown = 0
        digests = [res['digest']]
        import time as _time
        t0 = _time.monotonic()
        done = 0
        for q, n in points:
            if _time.monotonic() - t0 > case.get('budget_s', 15):
                break    # wall budget of a sweep (slow machine): the remaining kill points are left to other cases
            done += 1
            faults = [dict(kind='KILL', proc=q, ykind='ANY', n=n)]
            outcome, info = _simulate(make_call(case)[0], case, faults, trace_codes)
            r = judge(case, ref, outcome, info, faults)
            digests.append(r.get('digest'))
            total['steps'] = total.get('steps', 0) + r.get('steps', 0)
            for k, v in (r.get('fired') or {}).items():
                fired[k] = fired.get(k, 0) + v
            if r['verdict'] == 'violation':
                if r.get('vclass') == 'O3-deadlock-lock-owner-killed':
                    nknown += 1     # the known finding: counted, the sweep goes on
                    continue
                rc = copy.deepcopy(case)
                rc.pop('sweep', None)
                rc['faults'] = faults
                r['_resolved_case'] = rc     # reported, shrunk and replayed as an ordinary single-fault case
                r['detail'] = f'kill-point sweep, worker {q} killed at its yield {n} of {counts[q]}: ' + str(r.get('detail'))
                return r
            if r['verdict'] != 'pass':
                return r
        total['fired'] = fired
        total['digest'] = total['sig'] = core.sha(['killsweep', digests[0]])   # of the fault-free pilot: how far a sweep gets within its wall budget must not enter the determinism check
        total['nontrivial'] = True
        total['probes'].update({'killsweep_cases': 1, 'killsweep_kill_points': done, 'killsweep_known_deadlocks': nknown,
                                'killsweep_complete': int(done == sum(counts.values()))})
        total['family'] = case['prog']['family']
        if nknown:
            # surfaces as a hit of the known finding in the batch summary without hiding the rest of the sweep
            total['known_in_sweep'] = nknown
        return total


def run_case(case):
    import treelog
    from nutils import parallel, evaluable
    if case.get('calib'):
        return run_calibration(case)
    if case.get('sweep'):
        return run_sweep(case)
    with treelog.set(treelog.NullLog()), procsim.patched_parallel():
        try:
            call_ref, script, trace_codes = make_call(case)
        except Exception as e:
            return dict(verdict='harness', vclass='workload-build', detail=traceback.format_exc()[-1500:])
        # serial reference: a separately compiled instance of the same program, one process, outside the simulator
        try:
            with parallel.maxprocs(1):
                ref = ('return', call_ref())
        except Exception as e:
            ref = ('raise', f'{type(e).__name__}: {e}'[:300])
        twice = case['cfg'].get('twice') and ref[0] == 'return'

        def fresh():
            call = make_call(case)[0]
            if twice:  # the simulated call is then a rerun: constant blocks are skipped
                with parallel.maxprocs(1):
                    call()
            return call
        faults = case['faults']
        resolved = None
        if any('place' in f for f in faults):
            # fault-free pilot under the same schedule: judged as a run of its own, and used to place the faults
            pilot_outcome, pilot = _simulate(fresh(), case, [], trace_codes)
            pres = judge(case, ref, pilot_outcome, pilot, [])
            if pres['verdict'] != 'pass':
                rc = copy.deepcopy(case)
                rc['faults'] = []
                pres['_resolved_case'] = rc
                return pres
            resolved = _resolve_faults(case, pilot['events'])
            faults = resolved
        outcome, info = _simulate(fresh(), case, faults, trace_codes)
        res = judge(case, ref, outcome, info, faults)
        if res['verdict'] == 'pass' and case['cfg'].get('after') and any(info['fired']) and outcome[0] == 'raise':
            # recovery: the failed call is followed, in the same process, by a fault-free call of a freshly compiled function of the same program
            # (same loop lengths): whatever the failure left behind must not reach it
            c2 = copy.deepcopy(case)
            c2['cfg']['foreign_child'] = False
            outcome2, info2 = _simulate(fresh(), c2, [], trace_codes)
            res2 = judge(case, ref, outcome2, info2, [])
            res.setdefault('probes', {})['call_after_failed_call'] = 1
            if res2['verdict'] != 'pass':
                res2['detail'] = 'fault-free call after a call that failed by an injected fault, same process: ' + str(res2.get('detail'))
                res2['vclass'] = str(res2.get('vclass')) + '-after-failed-call' if res2['verdict'] == 'violation' else res2.get('vclass')
                res = res2
    if resolved is not None:
        rc = copy.deepcopy(case)
        rc['faults'] = resolved
        res['_resolved_case'] = rc
        res.setdefault('probes', {})['fault_free_pilot_runs_also_judged'] = 1
        res['steps'] = res.get('steps', 0) + pilot['steps']
    if script is not None and case['gran'] == 'line':
        res['script_sha'] = hashlib.sha1(script.encode()).hexdigest()
    return res


def judge(case, ref, outcome, info, faults):
    ev = info['events']
    fired_idx = [i for i, v in enumerate(info['fired']) if v]
    fired_kinds = {}
    for i in fired_idx:
        fired_kinds[faults[i]['kind']] = fired_kinds.get(faults[i]['kind'], 0) + 1
    bomb = ref[0] == 'raise'
    if bomb and not (case['prog']['family'] == 'P14' or (case['prog']['family'] == 'P12' and case['prog']['missing'] >= 0)):
        return dict(verdict='harness', vclass='workload-serial-raises', detail=ref[1])
    if bomb:
        fired_kinds['BOMB'] = 1
    any_fault = bool(fired_idx)
    evl = ev.tolist()
    nswitch = sum(1 for a, b in zip(evl, evl[1:]) if a[0] != b[0])
    res = dict(verdict='pass', vclass=None, detail=None, digest=info['digest'], steps=info['steps'], fired=fired_kinds,
               family=case['prog']['family'], sig=info['digest'], nontrivial=bool(info['nslots'] > 1 and (nswitch > 0 or any_fault)),
               probes={'blocked_on_lock': int(info['probes'][0]), 'two_or_more_enabled': int(info['maxconc'] >= 2), 'context_switches': nswitch,
                       'outcome_' + outcome[0]: 1, 'runs_with_fault_fired': int(any_fault or bomb), 'gran_' + case['gran']: 1, 'sched_' + case['sched']['kind']: 1})

    def viol(vclass, detail):
        res.update(verdict='violation', vclass=vclass, detail=detail, trace=procsim.format_events(ev, 300))
        return res
    if info['evover']:
        res.update(verdict='harness', vclass='event-log-overflow', detail='')
        return res
    # I3 lock discipline marks
    for p, kind, obj, a, b in evl:
        if kind == K['MARK'] and obj == 901:
            return viol('I3-self-deadlock', f'process {p} acquires lock {a} it already holds')
        if kind == K['MARK'] and obj == 902 and not any_fault:
            return viol('I3-release-unowned', f'process {p} releases lock {a} it does not own')
    # I1 exactly once
    by_raw = {}
    for p, kind, obj, a, b in evl:
        if kind == K['NEXTRET']:
            by_raw.setdefault(obj, []).append(a)
    for r, vals in by_raw.items():
        if len(set(vals)) != len(vals):
            dup = sorted(v for v in set(vals) if vals.count(v) > 1)
            return viol('I1-iteration-twice', f'loop counter {r}: iterations {dup} handed out more than once: {vals}')
        if not any_fault and not bomb and outcome[0] == 'return' and sorted(vals) != list(range(len(vals))):
            return viol('I1-iteration-skipped', f'loop counter {r}: iterations handed out {sorted(vals)}')
    # I2 mutual exclusion (happens-before races on shared bytes)
    races = procsim.happens_before_races(ev, info['nslots'])
    if races:
        b, lo, hi, p, q = races[0]
        return viol('I2-race', f'{len(races)} unordered write pairs; first: buffer {b} bytes [{lo},{hi}) written by process {p} and process {q} without happens-before')
    if outcome[0] == 'livelock':
        return viol('O3-livelock', 'step cap exceeded')
    if outcome[0] == 'deadlock':
        owner = info['dl_owner']
        if owner >= 0 and info['owner_status'] == procsim.KILLED and any(faults[i]['kind'] == 'KILL' and faults[i]['proc'] == owner for i in fired_idx):
            return viol('O3-deadlock-lock-owner-killed', f'call neither returns nor raises: lock {info["dl_lock"]} is held by process {owner}, which was killed while holding it; {outcome[1]}')
        return viol('O3-deadlock', f'deadlock without a killed lock owner: {outcome[1]}')
    only_echild = any_fault and not bomb and set(fired_kinds) == {'WAIT_ECHILD'}
    if only_echild and outcome[0] == 'return':
        # nothing failed, only an exit status was lost: returning the right result is as good as raising
        d = _equal(outcome[1], ref[1], case['kind'] in ('expr', 'nested'))
        if d:
            return viol('O1-mismatch', 'after a lost exit status (no worker failed): ' + d)
        return res
    if any_fault or bomb:
        if outcome[0] == 'return':
            return viol('O2-returned-after-fault', f'a fault fired ({fired_kinds}) but the call returned a value instead of raising')
        return res
    # fault free
    if outcome[0] == 'raise':
        return viol('O1-raised', f'fault-free parallel call raised {outcome[1]} while the serial call returned')
    exact = case['kind'] in ('expr', 'nested')
    d = _equal(outcome[1], ref[1], exact)
    if d:
        return viol('O1-mismatch', d)
    for p, kind, obj, a, b in evl:
        if kind == K['EXIT'] and b > 0:
            return viol('I3-exit-holding-lock', f'process {p} exits holding {b} locks on a fault-free run')
    res['sample'] = dict(family=case['prog']['family'], prog=case['prog'], nprocs=case['nprocs'], gran=case['gran'], sched=case['sched']['kind'],
                         steps=info['steps'], events=len(evl), context_switches=nswitch, outcome=outcome[0]) if case.get('_index', 1) % 97 == 0 else None
    return res


# ---------------------------------------------------------------------- shrinking

def shrink_candidates(case):
    c = case
    # drop faults
    if len(c['faults']) > 1:
        for i in range(len(c['faults'])):
            yield shrink.with_key(c, 'faults', c['faults'][:i] + c['faults'][i + 1:])
    # simpler schedule
    s = c['sched']
    if s['kind'] != 'tape':
        yield shrink.with_key(c, 'sched', dict(kind='tape', tape=[]))
        yield shrink.with_key(c, 'sched', dict(kind='rr'))
    if s.get('tape'):
        for t in shrink.list_reductions(s['tape'], zero=0):
            yield shrink.with_key(c, ['sched', 'tape'], t)
    if c['gran'] == 'line' and not any(f['kind'] == 'RAISE' for f in c['faults']):
        yield shrink.with_key(c, 'gran', 'sync')
    for v in shrink.int_reductions(c['nprocs'], 2):
        yield shrink.with_key(c, 'nprocs', v)
    p = c['prog']
    for key in ('n', 'm', 'k', 'n2', 'L', 'nelems', 'npts'):
        if key in p and isinstance(p[key], int):
            for v in shrink.int_reductions(p[key], 1):
                yield shrink.with_key(c, ['prog', key], v)
    if p.get('dtype') in ('complex', 'int'):
        yield shrink.with_key(c, ['prog', 'dtype'], 'float')
    if c['cfg'].get('twice'):
        yield shrink.with_key(c, ['cfg', 'twice'], False)
    if c['cfg'].get('foreign_child'):
        yield shrink.with_key(c, ['cfg', 'foreign_child'], False)
    for i, f in enumerate(c['faults']):
        if 'n' in f:
            for v in shrink.int_reductions(f['n'], 1):
                yield shrink.with_key(c, ['faults', i, 'n'], v)
