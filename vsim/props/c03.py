'''C03 - compiled functions are pure functions of their arguments across calls (opsim; parallel calls via procsim).  DESIGN.md 3.'''

import os, sys, gc, json, copy, random, traceback, linecache
import numpy
from .. import core, procsim, workloads, shrink

ID = 'C03'
LEVEL = 'exploration'
CASE_TIMEOUT = 90.0
CHUNK = 10
RULE = ('cases = seeded histories of up to 12 operations on ONE long-lived object: a function compiled by evaluable.compile (program drawn from loop templates P*, constant/view templates Q*, FEM integrals; '
        'configuration knobs cache_const_intermediates, _simplify, _optimize, stats, compile-time maxprocs), or a solver.System, or a function.Basis. Operations: call with an argument set from a pool '
        '(same dict/array objects re-used, arrays mutated in place between calls, fresh copies, read-only / non-contiguous / integer-typed inputs, extra arguments), scribble a poison pattern over every writable array returned earlier, '
        'malformed call that must raise, MemoryError injected at the n-th line of the running generated script (also in the middle of the first run), the same call executed in parallel under the process simulator, gc. '
        'Model = results snapshotted in pristine state from a separate compile without constant caching, cross-checked against the unsimplified unoptimised evaluation. '
        'distinct = SHA-1 of (program family and configuration, operation kinds with argument-set ids, outcomes); non-trivial = at least two calls with a state-changing event between them')
ASSUMPTIONS = [
    'NumPy is trusted; two independent evaluations (no-cache compile, unsimplified unoptimised compile) must agree before a case is run, else the case is discarded and counted',
    'arrays handed out that alias an argument array are not scribbled (writing into them is the caller modifying its own argument)',
    'whether an EARLIER result changes later is not an oracle: the statement promises the result of later calls, not the lifetime of returned arrays',
    'sampled histories: evidence, not proof',
]
REAL_VS_STUB = {
    'real': ['nutils.evaluable.compile and the generated scripts (first_run, cached globals, zero-stride views)', 'solver.System memo of compiled functions and constant matrix', 'function.Basis compiled dof/coefficient functions', 'nutils.parallel for parallel calls'],
    'stub': ['the caller (operation sequence, writes into returned arrays)', 'MemoryError injection through sys.settrace', 'process scheduling for parallel calls (procsim)'],
}

POISON = -777


def budget(tier):
    if tier == 'quick':
        return dict(n=2400, wall=75, dup=40)
    return dict(n=40000, wall=1500, dup=200)


# ---------------------------------------------------------------------- programs

BOUNDS = {}   # argument name -> exclusive upper bound for integer arguments that index or count
QFAMS = ['Q1', 'Q2', 'Q3', 'Q4', 'Q5', 'Q6', 'Q7', 'Q8', 'Q8', 'Q9', 'Q10', 'Q11', 'Q12']


def build_q(prog):
    from nutils import evaluable as ev
    rng = random.Random(prog['dseed'])
    fam = prog['family']
    n = prog.get('n', 3)
    m = prog.get('m', 2)
    c = ev.constant
    args = {}

    def arg(name, shape, dtype='float'):
        a = ev.Argument(name, tuple(c(s) for s in shape), workloads._PYT[dtype])
        args[name] = workloads._data(rng, shape, dtype)
        return a

    def const(shape, dtype='float'):
        return c(workloads._data(rng, shape, dtype))
    if fam == 'Q1':  # constants only
        A = const((n, m))
        b = const((m,))
        bb = ev.prependaxes(b, (c(n),))
        return (A * bb + bb, ev.Sum(A), ev.Transpose(A, (1, 0)), ev.InsertAxis(b, c(n)), A), args
    if fam == 'Q2':  # constant sub-trees under argument dependent roots
        X = arg('x', (n, m))
        A = const((n, m))
        B = const((n, m))
        AB = A * B + A
        return (X * AB, ev.Sum(X) * ev.Sum(AB), AB), args
    if fam == 'Q3':  # views of constants handed out, alone and combined with arguments
        X = arg('x', (m,))
        A = const((n, m))
        v = const((m,))
        s = const(())
        return (ev.InsertAxis(v, c(n)), ev.Transpose(A, (1, 0)), ev.Ravel(A), ev.diagonalize(v), ev.get(A, 0, c(0)), ev.InsertAxis(s, c(m)),
                ev.InsertAxis(v, c(n)) * ev.InsertAxis(X, c(n)), ev.InsertAxis(v * v, c(2))), args
    if fam == 'Q4':  # guarded constants are not constant for the cache
        X = arg('x', (m,))
        v = const((m,))
        g = ev.Guard(v * v)
        return (g, g + X, ev.InsertAxis(ev.Guard(v), c(n)), ev.Sum(g)), args
    if fam == 'Q5':  # arguments handed back, views of arguments, shared subterms
        X = arg('x', (n, m))
        Y = arg('y', (m,))
        xy = X * ev.InsertAxis(Y, c(n)) if False else X * ev.prependaxes(Y, (c(n),))
        return (X, ev.Transpose(X, (1, 0)), ev.InsertAxis(Y, c(n)), xy, ev.Sum(xy), (xy + X, ev.Sum(ev.Sum(xy)))), args
    if fam == 'Q6':  # integer typed arguments cast to float, extra arguments ignored
        X = arg('x', (n, m))
        K = arg('k', (n,), 'int')
        return (X * ev.InsertAxis(ev.astype(K, float), c(m)), ev.Sum(K), K * K), args
    if fam == 'Q7':  # constant loop and dependent loop sharing structure, plus constant views
        i = ev.loop_index('i', n)
        C = const((n, m))
        X = arg('x', (n, m))
        fc = ev.loop_sum(ev.get(C, 0, i), i)
        fx = ev.loop_concatenate(ev.get(X, 0, i) * fc, i)
        return (fc, fx, ev.InsertAxis(fc, c(2)), ev.loop_concatenate(ev.get(C, 0, i), i)), args
    if fam == 'Q8':  # argument dependent VIEWS (zero-stride repeat, basic index, slice) of COMPUTED constant intermediates
        A = const((n + 1, m))
        v = const((m,))
        cnt = ev.InRange(ev.Argument('cnt', (), int), c(5))
        idx = ev.InRange(ev.Argument('idx', (), int), c(n + 1))
        args['cnt'] = numpy.array(rng.choice([1, 2, 3, 4]))
        args['idx'] = numpy.array(rng.randrange(n + 1))
        BOUNDS.update(cnt=5, idx=n + 1)
        AA = ev.Sin(A) * A      # computed, argument free, not folded by the simplifier
        vv = ev.Cos(v) + v
        return (ev.InsertAxis(vv, cnt), ev.get(AA, 0, idx), ev.InsertAxis(ev.Sum(vv), cnt), ev.Sum(AA) + ev.astype(cnt, float), AA), args
    if fam == 'Q12':  # arrays GENERATED per call with an argument dependent size (index ranges, zeros, repeats) handed out directly and through views
        cnt = ev.InRange(ev.Argument('cnt', (), int), c(6))
        args['cnt'] = numpy.array(rng.choice([1, 2, 3, 4, 5]))
        BOUNDS.update(cnt=6)
        X = arg('x', (m,))
        v = const((6,))
        R = ev.Range(cnt)
        return (R, ev.InsertAxis(R, c(2)), ev.Transpose(ev.InsertAxis(R, c(2)), (1, 0)), ev.zeros((cnt, c(m))), ev.Take(v, R), ev.astype(R, float) * 2.,
                ev.InsertAxis(X, cnt), ev._inflate(ev.Take(v, R), R, c(6), 0), R + cnt), args
    if fam == 'Q11':  # an update map u -> F(u) whose result has the shape of its argument and is a VIEW OF A VIEW of an internal accumulator (fixed-point iteration feeds it back)
        k = 2
        U = arg('u', (k * k, m))
        A = const((n, m, k, k))
        B = const((m, k, k))
        i = ev.loop_index('i', n)
        uu = ev.Transpose(ev.unravel(U, 0, (c(k), c(k))), (2, 0, 1))          # (m, k, k)
        acc = ev.loop_sum(ev.get(A, 0, i) * uu, i) + B                           # (m, k, k)
        out = ev.Transpose(ev.Ravel(acc), (1, 0))                                # (k*k, m): the shape of u
        acc2 = ev.loop_sum(ev.get(A, 0, i) * ev.get(A, 0, i), i) * uu + uu
        return (out, ev.Transpose(ev.Ravel(acc2), (1, 0)), ev.Sum(ev.Ravel(acc))), args
    if fam == 'Q10':  # terms that are VIEWS of an argument (real / imaginary part, transpose, ravel) next to terms that are accumulated in place
        L = n + 2
        Z = arg('z', (L,), 'complex')
        W = arg('w', (m, L), 'complex')
        X = arg('x', (n,))
        Y = arg('y', (L, m))
        D = c(numpy.array([rng.randrange(L) for _ in range(n)], dtype=int))
        scat = ev._inflate(X, D, c(L), 0)
        return (scat + ev.Real(Z), ev.Imag(Z) + scat, ev.diagonalize(ev.Real(Z)) + ev.Real(ev.InsertAxis(Z, c(L))),
                ev._inflate(X, D, c(L), 0) * 2. + ev.Imag(Z) * ev.Real(Z), ev.Transpose(Y, (1, 0)) + ev.Real(W), scat + ev.Sum(Y)), args
    if fam == 'Q9':  # values that live in library objects (transform items of a plain sequence): chains of one and of several items, handed out directly and through views
        from nutils import transformseq, transform
        nd = 1 + m % 2
        nch = max(2, n)
        chains = []
        for q in range(nch):
            chain = [transform.Index(nd, q)]
            for _ in range((q + prog['dseed']) % 3):     # chain lengths 1, 2, 3 mixed
                chain.append(_child(nd, rng))
            chains.append(tuple(chain))
        seq = transformseq.PlainTransforms(tuple(chains), nd, nd)
        idx = ev.InRange(ev.Argument('idx', (), int), c(nch))
        args['idx'] = numpy.array(0)
        BOUNDS.update(idx=nch)
        P = arg('p', (n, nd))
        lin = ev.TransformLinear(None, seq, idx)
        co = ev.TransformCoords(None, seq, idx, P)
        return (lin, ev.Transpose(lin, (1, 0)), ev.get(lin, 0, c(0)), ev.InsertAxis(lin, c(2)), co, lin * lin), args
    raise ValueError(fam)


def _child(nd, rng):
    from nutils import transform, element
    ref = element.LineReference() if nd == 1 else element.TriangleReference()
    return ref.child_transforms[rng.randrange(len(ref.child_transforms))]


def build_fem(prog):
    from nutils import mesh, function
    ne = prog['nelems']
    if prog['mesh'] == 'line':
        topo, geom = mesh.line(ne)
    else:
        topo, geom = mesh.rectilinear([max(1, ne // 2), 2])
    basis = topo.basis('std', degree=prog['degree'])
    u = function.dotarg('lhs', basis)
    J = function.J(geom)
    k = function.Argument('kappa', ())
    integrals = (topo.integral(basis * u * J, degree=2 * prog['degree']), topo.integral(k * u * u * J, degree=2 * prog['degree']), topo.integral(basis * J, degree=2))
    rng = random.Random(prog['dseed'])
    args = dict(lhs=workloads._data(rng, (len(basis),), 'float'), kappa=numpy.array(rng.randint(1, 9) / 4))
    funcs = tuple(i.as_evaluable_array for i in integrals)
    return funcs, args


def build_prog(prog):
    fam = prog['family']
    if fam.startswith('Q'):
        return build_q(prog)
    if fam == 'FEM':
        return build_fem(prog)
    if fam in ('P18', 'P21'):
        BOUNDS['N'] = int(prog.get('n', 3)) + 1
    return workloads.build(prog)


def gen_prog(rng):
    r = rng.random()
    if r < 0.45:
        return dict(family=rng.choice(QFAMS), n=rng.choice([1, 2, 3, 4]), m=rng.choice([1, 2, 3]), dseed=rng.randrange(1 << 30))
    if r < 0.55:
        return dict(family='FEM', mesh=rng.choice(['line', 'quad']), nelems=rng.choice([1, 2, 4, 6]), degree=rng.choice([1, 2]), dseed=rng.randrange(1 << 30))
    p = workloads.gen_prog(rng, ['P1', 'P2', 'P3', 'P4', 'P5', 'P6', 'P7', 'P9', 'P10', 'P14', 'P15', 'P16', 'P17', 'P18', 'P19', 'P20', 'P21'])
    p['bad'] = -1
    return p


# ---------------------------------------------------------------------- generation

def gen_case(rng, index, tier):
    r = rng.random()
    if r < 0.12:
        return gen_system_case(rng)
    if r < 0.18:
        return gen_basis_case(rng)
    if r < 0.23:
        return gen_topo_case(rng)
    prog = gen_prog(rng)
    cfg = dict(cache=rng.random() < 0.75, simplify=rng.random() < 0.85, optimize=rng.random() < 0.85, stats=rng.random() < 0.08, compile_procs=rng.choice([1, 1, 1, 3]))
    nsets = rng.choice([1, 2, 3])
    ops = []
    nops = rng.choice([2, 3, 4, 6, 8, 12] + ([20, 30] if tier == 'thorough' else []))
    for _ in range(nops):
        r = rng.random()
        if r < 0.5 and prog['family'] == 'Q11' and rng.random() < 0.6:
            ops.append(dict(op='call', k=rng.randrange(nsets), how='feedback'))
        elif r < 0.5:
            ops.append(dict(op='call', k=rng.randrange(nsets), how=rng.choice(['same', 'same', 'same', 'fresh', 'readonly', 'noncontig', 'extra', 'asint', 'onearray', 'roview', 'roview_int', 'roview_int', 'feedback', 'feedback'])))
        elif r < 0.7:
            ops.append(dict(op='scribble', j=rng.randrange(6)))
        elif r < 0.8:
            ops.append(dict(op='mutate', k=rng.randrange(nsets)))
        elif r < 0.87:
            ops.append(dict(op='bad_call', kind=rng.choice(['missing', 'shape', 'dtype']), k=rng.randrange(nsets)))
        elif r < 0.95:
            ops.append(dict(op='raise_inside', n=rng.choice([1, 2, 3, 5, 8, 13, 21, 34, 55]), k=rng.randrange(nsets)))
        else:
            ops.append(dict(op='gc'))
    if rng.random() < (0.4 if cfg['compile_procs'] > 1 else 0.08) and not cfg['stats']:
        from . import c16
        op = dict(op='call_parallel', k=rng.randrange(nsets), nprocs=rng.choice([2, 3]), sched=c16.gen_sched(rng))
        if rng.random() < 0.5:
            # the parallel call itself fails (a worker is killed, a fork or a shared allocation fails) - possibly the FIRST run; later calls must be unaffected
            op['faults'] = [rng.choice([dict(kind='KILL', proc=rng.randrange(1, op['nprocs']), ykind='ANY', n=rng.choice([1, 2, 3, 4, 6, 9, 14])),
                                        dict(kind='FORK_FAIL', proc=0, n=rng.randint(1, op['nprocs'] - 1)), dict(kind='ALLOC_FAIL', proc=0, n=rng.randint(1, 3))])]
        ops.insert(rng.choice([0, 0, rng.randrange(len(ops) + 1)]), op)
    if rng.random() < 0.12:
        # the same read-only view objects passed again after their base changed in place (for the integral argument set also as integer arrays)
        k = nsets - 1
        how = rng.choice(['roview', 'roview_int', 'roview_int'])
        ops[rng.randrange(len(ops) + 1):0] = [dict(op='call', k=k, how=how), dict(op='mutate', k=k), dict(op='call', k=k, how=how)]
    ops.append(dict(op='call', k=rng.randrange(nsets), how='same'))
    return dict(kind='compiled', prog=prog, cfg=cfg, nsets=nsets, ops=ops, aseed=rng.randrange(1 << 30))


def gen_system_case(rng):
    from . import c14
    spec = c14.gen_system_spec(rng)
    while spec['kind'] in ('time', 'sqrt'):
        spec = c14.gen_system_spec(rng)
    if rng.random() < 0.4:
        spec['kind'] = 'linparam'
    spec['mat']['cond'] = 'well'
    ops = []
    for _ in range(rng.choice([3, 5, 8])):
        ops.append(dict(op=rng.choice(['residual', 'jacobian', 'jacobian_residual', 'value', 'solve']), k=rng.randrange(3), kappa=rng.choice([0., .5, 2.]), cons=rng.choice(['none', 'none', 'bool', 'float']),
                        cmask=[rng.random() < 0.3 for _ in range(spec['n'])], scribble=rng.random() < 0.5))
    return dict(kind='system', spec=spec, ops=ops, aseed=rng.randrange(1 << 30))


def gen_basis_case(rng):
    ops = [dict(op=rng.choice(['dofs', 'coeffs', 'ndofs', 'eval']), ielem=rng.randrange(8), scribble=rng.random() < 0.6) for _ in range(rng.choice([3, 6, 10]))]
    return dict(kind='basis', mesh=rng.choice(['line', 'quad']), nelems=rng.choice([2, 3, 4]), btype=rng.choice(['std', 'spline', 'discont']), degree=rng.choice([1, 2]), ops=ops)


def gen_topo_case(rng):
    '''Long-lived compiled functions inside the library: Topology._locate compiles (x, dx/dxi) once and calls it for every candidate element
    and Newton iterate with the SAME arguments dict and a point array that is updated in place; trim compiles the level set once and calls it per element.'''
    what = rng.choice(['locate', 'locate', 'trim'])
    case = dict(kind='topo', what=what, mesh=rng.choice(['line', 'quad', 'tri']), nelems=rng.choice([2, 3, 4, 6]), pseed=rng.randrange(1 << 30),
                scale=rng.choice([1., 2., .5]), witharg=rng.random() < 0.6)
    if what == 'locate':
        npool = rng.choice([3, 5, 7])
        case.update(npool=npool, tolkind=rng.choice(['eps', 'tol', 'both']), maxdist=rng.random() < 0.2, weights=rng.random() < 0.2,
                    ops=[dict(op='locate', pts=[rng.randrange(npool) for _ in range(rng.choice([1, 2, 3, 5, 8]))]) for _ in range(rng.choice([1, 2, 3]))])
    else:
        case.update(ops=[dict(op='trim', ls=rng.randrange(3), maxrefine=rng.choice([0, 1, 2])) for _ in range(rng.choice([1, 2, 3]))])
    return case


# ---------------------------------------------------------------------- helpers

def _flat(t):
    if isinstance(t, (tuple, list)):
        out = []
        for x in t:
            out.extend(_flat(x))
        return out
    return [t]


def _struct(t):
    if isinstance(t, (tuple, list)):
        return [_struct(x) for x in t]
    return 0


def _snapshot(res):
    return [numpy.array(a, copy=True) for a in _flat(res)]


def _same(res, snap, exact=True, tol=0.):
    a = _flat(res)
    if len(a) != len(snap):
        return f'{len(a)} leaves instead of {len(snap)}'
    for i, (x, y) in enumerate(zip(a, snap)):
        x = numpy.asarray(x)
        if x.shape != y.shape:
            return f'leaf {i}: shape {x.shape} instead of {y.shape}'
        if x.dtype != y.dtype:
            return f'leaf {i}: dtype {x.dtype} instead of {y.dtype}'
        if exact:
            if not numpy.array_equal(x, y, equal_nan=True):
                return f'leaf {i}: values {x.ravel()[:5].tolist()} instead of {y.ravel()[:5].tolist()}'
        elif not numpy.allclose(x, y, rtol=tol, atol=tol * (1 + float(abs(y).max(initial=0)))):
            return f'leaf {i}: values differ by {float(abs(x - y).max())}'
    return None


def _integral(k, nsets):
    return nsets >= 2 and k == nsets - 1


def make_args(base, k, version, rng_seed, integral=False):
    '''Argument set k in content version `version`: deterministic values derived from the base arrays.'''
    out = {}
    for name, a in base.items():
        r = numpy.random.RandomState((rng_seed + 1000 * k + 17 * version) % (1 << 31))
        if integral and a.dtype.kind == 'f':
            # whole numbers: this set can be passed as integer arrays for the real-valued arguments
            out[name] = numpy.array(numpy.round(a * 2) + r.randint(-3, 4, size=a.shape), dtype=float)
            continue
        if a.dtype.kind == 'i':
            v = a + (r.randint(-3, 4, size=a.shape) if (k or version) else 0)
            if name == 'sel':
                v = a.copy()
            elif name in BOUNDS:
                v = (a + (r.randint(0, 7, size=a.shape) if (k or version) else 0)) % BOUNDS[name]
                if name == 'cnt':
                    v = numpy.maximum(v, 1)
        elif a.dtype.kind == 'c':
            v = a + ((r.randint(-8, 9, size=a.shape) / 4 + 1j * r.randint(-8, 9, size=a.shape) / 4) if (k or version) else 0)
        else:
            v = a + (r.randint(-8, 9, size=a.shape) / 4 if (k or version) else 0)
        out[name] = numpy.array(v, dtype=a.dtype)
    return out


class LineBomb:
    '''sys.settrace hook: MemoryError at the n-th line event inside generated code.'''

    def __init__(self, n):
        self.n = n
        self.count = 0
        self.fired = False

    def gtrace(self, frame, event, arg):
        if frame.f_code.co_filename.startswith('function_'):
            return self.ltrace
        return None

    def ltrace(self, frame, event, arg):
        if event == 'line' and not self.fired:
            self.count += 1
            if self.count >= self.n:
                line = linecache.getline(frame.f_code.co_filename, frame.f_lineno).lstrip()
                if not line.startswith('with '):
                    self.fired = True
                    raise procsim.InjectedFault('injected allocation failure')
        return self.ltrace


# ---------------------------------------------------------------------- execution: compiled function histories

def run_compiled(case, skip_first_run_views=False):
    from nutils import evaluable, parallel
    prog, cfg = case['prog'], case['cfg']
    funcs, base = build_prog(prog)
    kw = dict(_simplify=cfg['simplify'], _optimize=cfg['optimize'])
    nsets = case['nsets']
    # ---- pristine phase: the model
    model = {}
    exact = prog['family'] != 'FEM'   # dyadic data: sums are exact whatever the order; FEM integrals are compared to 1e-12
    try:
        ref = evaluable.compile(funcs, cache_const_intermediates=False, **kw)
        ref2 = evaluable.compile(funcs, cache_const_intermediates=False, _simplify=False, _optimize=False)
    except Exception as e:
        # the private pass flags in this combination do not compile this program at all: not a matter of call histories
        return dict(verdict='discard', vclass='compile-raises', detail=f'{type(e).__name__}: {e}'[:200])
    for k in range(nsets):
        for version in (0, 1):
            a = make_args(base, k, version, case['aseed'], integral=_integral(k, nsets))
            try:
                r1 = _snapshot(ref({n: v.copy() for n, v in a.items()}))
                r2 = ref2({n: v.copy() for n, v in a.items()})
            except Exception as e:
                return dict(verdict='discard', vclass='model-raises', detail=f'{type(e).__name__}: {e}'[:200])
            d = _same(r2, r1, exact=False, tol=1e-10)
            if d:
                return dict(verdict='discard', vclass='model-disagreement', detail=d)
            model[k, version] = r1
    struct = _struct(ref(make_args(base, 0, 0, case['aseed'])))
    # ---- the long-lived function under test
    with procsim.patched_parallel(), parallel.maxprocs(cfg['compile_procs']):
        f = evaluable.compile(funcs, cache_const_intermediates=cfg['cache'], stats='log' if cfg['stats'] else False, **kw)
    pool = {k: make_args(base, k, 0, case['aseed'], integral=_integral(k, nsets)) for k in range(nsets)}
    roviews = {}   # (k, name, kind) -> (base array, read-only view of it): persistent objects, the SAME view is passed again and again
    pooldicts = {k: dict(pool[k]) for k in range(nsets)}
    version = {k: 0 for k in range(nsets)}
    returned = []   # flat arrays of every call, in order
    log = []
    ncalls = 0
    events_between = 0
    nontrivial = False
    probes = {}

    def probe(name):
        probes[name] = probes.get(name, 0) + 1

    def check_call(res, k, a_before, passed, exact=exact):
        if _struct(res) != struct:
            return ('S-structure', f'result structure {_struct(res)} instead of {struct}')
        d = _same(res, model[k, version[k]], exact=exact, tol=1e-12)
        if d:
            return ('V-result-depends-on-history', f'call #{ncalls} with argument set {k} (content version {version[k]}): {d}')
        for name, arr in passed.items():
            if name in a_before and not numpy.array_equal(numpy.asarray(arr), a_before[name], equal_nan=True):
                return ('A-argument-modified', f'call #{ncalls} modified argument {name!r}: {numpy.asarray(arr).ravel()[:5].tolist()} was {a_before[name].ravel()[:5].tolist()}')
        return None
    for oi, op in enumerate(case['ops']):
        kind = op['op']
        if kind == 'call':
            k = op['k']
            how = op['how']
            a = pooldicts[k]
            passed = a
            if how == 'fresh':
                passed = {n: v.copy() for n, v in a.items()}
            elif how == 'readonly':
                passed = {}
                for n, v in a.items():
                    w = v.copy()
                    w.setflags(write=False)
                    passed[n] = w
            elif how == 'noncontig':
                passed = {}
                for n, v in a.items():
                    if v.ndim:
                        big = numpy.zeros(v.shape[:-1] + (v.shape[-1] * 2,), dtype=v.dtype)
                        big[..., ::2] = v
                        passed[n] = big[..., ::2]
                    else:
                        passed[n] = v.copy()
            elif how == 'extra':
                passed = dict(a, _unused_argument=numpy.arange(3.), zzz=numpy.zeros(2))
            elif how == 'asint':
                # float arguments whose values are integers may be passed as integer arrays (cast on ingestion)
                passed = {n: (v.astype(int) if v.dtype.kind == 'f' and (v == numpy.round(v)).all() else v) for n, v in a.items()}
            elif how in ('roview', 'roview_int'):
                # read-only VIEWS of writable bases, the same view objects on every such call; the bases are updated in place by `mutate`
                passed = {}
                for n, v in a.items():
                    asint = how == 'roview_int' and v.dtype.kind == 'f' and (v == numpy.round(v)).all()
                    key = (k, n, 'int' if asint else 'same')
                    if key not in roviews:
                        b_ = v.astype(int) if asint else v.copy()
                        w = b_.view()
                        w.setflags(write=False)
                        roviews[key] = (b_, w)
                    b_, w = roviews[key]
                    if not numpy.array_equal(b_, v):
                        b_[...] = v if not asint else numpy.round(v).astype(int)
                    passed[n] = w
            elif how == 'feedback':
                # an array RETURNED by an earlier call is handed back as an argument (iteration: the result of step k is the input of step k+1)
                passed = dict(a)
                fed = None
                for arrays, _, _ in reversed(returned):
                    for arr in arrays:
                        for n in sorted(a):
                            if isinstance(arr, numpy.ndarray) and arr.shape == a[n].shape and arr.dtype == a[n].dtype and arr.size and n not in BOUNDS and n != 'sel' and numpy.isfinite(arr).all() and abs(arr).max() < 1e6 and not any(arr is v for v in a.values()):
                                passed[n] = arr
                                fed = n
                                break
                        if fed:
                            break
                    if fed:
                        break
                if fed is None:
                    how = 'same'
            elif how == 'onearray':
                # one ndarray object passed for two arguments of equal shape and dtype
                passed = dict(a)
                names = sorted(a)
                for i1 in range(len(names)):
                    for i2 in range(i1 + 1, len(names)):
                        if a[names[i1]].shape == a[names[i2]].shape and a[names[i1]].dtype == a[names[i2]].dtype and numpy.array_equal(a[names[i1]], a[names[i2]]):
                            passed[names[i2]] = passed[names[i1]]
            before = {n: numpy.array(v, copy=True) for n, v in passed.items()}
            try:
                res = f(passed)
            except Exception as e:
                return finish(('E-call-raised', f'call #{ncalls} ({how}) raised {type(e).__name__}: {e}'[:300]), log, probes, nontrivial, case)
            ncalls += 1
            if how == 'feedback':
                # the expected value for arguments that are not in the pool: the independent compile, evaluated on copies of the values that went in
                try:
                    want = _snapshot(ref({n: numpy.array(v, copy=True) for n, v in before.items()}))
                except Exception as e:
                    want = None
                bad = None
                if want is not None:
                    d = _same(res, want, exact=False, tol=1e-9)
                    if d:
                        bad = ('V-result-depends-on-history', f'call #{ncalls} with a previously returned array handed back as argument {fed!r}: {d}')
                    else:
                        for name, arr in passed.items():
                            if not numpy.array_equal(numpy.asarray(arr), before[name], equal_nan=True):
                                bad = ('A-argument-modified', f'call #{ncalls} modified argument {name!r} (an array returned by an earlier call): {numpy.asarray(arr).ravel()[:5].tolist()} was {before[name].ravel()[:5].tolist()}')
                                break
            else:
                bad = check_call(res, k, before, passed)
            log.append(('call', k, how, 'ok' if not bad else bad[0]))
            if bad:
                return finish(bad, log, probes, nontrivial, case)
            if events_between and ncalls > 1:
                nontrivial = True
            events_between = 0
            returned.append((_flat(res), [v for v in passed.values() if isinstance(v, numpy.ndarray)], ncalls))
            probe('call_' + how)
        elif kind == 'scribble':
            if not returned:
                continue
            arrays, argarrays, callno = returned[op['j'] % len(returned)]
            allargs = argarrays + [v for d in pooldicts.values() for v in d.values()]
            n = 0
            for arr in arrays:
                if skip_first_run_views and callno == 1 and isinstance(arr, numpy.ndarray) and arr.base is not None:
                    continue   # causality probe for the known finding (see run_case)
                if isinstance(arr, numpy.ndarray) and arr.flags.writeable and arr.size and not any(numpy.shares_memory(arr, x) for x in allargs if isinstance(x, numpy.ndarray) and x.size):
                    arr[...] = POISON
                    n += 1
                elif isinstance(arr, numpy.ndarray) and not arr.flags.writeable:
                    probe('returned_array_readonly')
            log.append(('scribble', n))
            if n:
                events_between += 1
                probe('scribbled_arrays')
        elif kind == 'mutate':
            k = op['k']
            version[k] ^= 1
            new = make_args(base, k, version[k], case['aseed'], integral=_integral(k, nsets))
            for (kk, name, kind_), (b_, v_) in roviews.items():
                if kk == k:
                    b_[...] = new[name] if kind_ == 'same' else numpy.round(new[name]).astype(b_.dtype)   # the base behind the read-only view changes in place
            for n, v in pooldicts[k].items():
                if v.flags.writeable:
                    v[...] = new[n]     # in place, same array objects (as Topology._locate does)
                else:
                    pooldicts[k][n] = new[n]
            events_between += 1
            log.append(('mutate', k, version[k]))
            probe('mutate_in_place')
        elif kind == 'bad_call':
            a = dict(pooldicts[op['k']])
            names = sorted(a)
            if not names:
                continue
            name = names[0]
            if op['kind'] == 'missing':
                del a[name]
            elif op['kind'] == 'shape':
                a[name] = numpy.zeros(a[name].shape + (2,), dtype=a[name].dtype)
            else:
                a[name] = numpy.array([['not a number']])
            try:
                f(a)
                log.append(('bad_call', op['kind'], 'returned'))
                probe('bad_call_not_rejected')
            except Exception as e:
                log.append(('bad_call', op['kind'], type(e).__name__))
                probe('bad_call_rejected')
                events_between += 1
        elif kind == 'raise_inside':
            a = pooldicts[op['k']]
            bomb = LineBomb(op['n'])
            old = sys.gettrace()
            sys.settrace(bomb.gtrace)
            try:
                try:
                    res = f(a)
                    outcome = 'returned'
                except procsim.InjectedFault:
                    outcome = 'raised'
                except Exception as e:
                    sys.settrace(old)
                    return finish(('E-call-raised', f'call with injected fault raised {type(e).__name__}: {e}'[:300]), log, probes, nontrivial, case)
            finally:
                sys.settrace(old)
            log.append(('raise_inside', op['n'], outcome, 'first_run' if ncalls == 0 else 'rerun'))
            if outcome == 'raised':
                events_between += 1
                probe('raise_inside_first_run' if ncalls == 0 else 'raise_inside_rerun')
            else:
                ncalls += 1
                bad = check_call(res, op['k'], {n: v.copy() for n, v in a.items()}, a)
                if bad:
                    return finish(bad, log, probes, nontrivial, case)
                returned.append((_flat(res), list(a.values()), ncalls))
        elif kind == 'call_parallel':
            k = op['k']
            a = pooldicts[k]
            before = {n: numpy.array(v, copy=True) for n, v in a.items()}
            sim = procsim.Sim(op['sched'], faults=op.get('faults', ()), granularity='sync')
            try:
                with procsim.patched_parallel():
                    with sim, parallel.maxprocs(op['nprocs']):
                        try:
                            res = f(a)
                            outcome = 'returned'
                        except (procsim.SimDeadlock, procsim.SimLivelock) as e:
                            outcome = 'stuck'
                        except Exception as e:
                            outcome = f'raised {type(e).__name__}: {e}'[:200]
                nproc = int(sim.hdr[procsim.H_NSLOT])
                fault_fired = any(sim.fired_faults())
            finally:
                sim.close()
            if outcome != 'returned' and fault_fired:
                # the failed call is the "crash" of this history (a deadlock after a kill inside a critical section is the C16 known finding, judged there);
                # what C03 requires is that the function is unharmed
                log.append(('call_parallel', k, nproc, 'failed-after-injected-fault', 'first_run' if ncalls == 0 else 'rerun'))
                events_between += 1
                probe('parallel_call_failed_by_fault_first_run' if ncalls == 0 else 'parallel_call_failed_by_fault_rerun')
                continue
            if outcome != 'returned':
                return finish(('P-parallel-call-failed', f'parallel call #{ncalls}: {outcome}'), log, probes, nontrivial, case)
            ncalls += 1
            bad = check_call(res, k, before, a)
            log.append(('call_parallel', k, nproc, 'ok' if not bad else bad[0]))
            if bad:
                return finish(bad, log, probes, nontrivial, case)
            returned.append((_flat(res), list(a.values()), ncalls))
            events_between += 1
            probe('parallel_call_with_%d_processes' % nproc)
        elif kind == 'gc':
            gc.collect()
            log.append(('gc',))
    return finish(None, log, probes, nontrivial, case)


def finish(bad, log, probes, nontrivial, case):
    sig = core.sha([case.get('prog', case.get('spec', [case.get('mesh'), case.get('nelems'), case.get('what'), case.get('pseed'), case.get('btype'), case.get('degree')])), case.get('cfg'), [list(map(str, l)) for l in log]])
    res = dict(verdict='pass' if not bad else 'violation', vclass=bad[0] if bad else None, detail=bad[1] if bad else None, digest=sig, sig=sig, steps=len(log), fired={k: v for k, v in probes.items() if k.startswith(('raise_inside', 'scribbled', 'mutate', 'bad_call_rejected', 'parallel'))},
               family=case['kind'] + ':' + str((case.get('prog') or {}).get('family', '')), nontrivial=bool(nontrivial), probes=probes)
    if bad:
        res['trace'] = [str(l) for l in log]
    elif case.get('_index', 1) % 211 == 0:
        res['sample'] = dict(kind=case['kind'], prog=case.get('prog'), cfg=case.get('cfg'), history=[list(map(str, l)) for l in log])
    return res


# ---------------------------------------------------------------------- execution: System and Basis

def run_system(case):
    from . import c14
    from nutils import matrix
    spec = case['spec']
    n = spec['n']
    system, resfun, info = c14.build_system(spec)
    A = c14.make_matrix(dict(spec['mat'], cplx=False))
    if spec['functional'] and spec['kind'] in ('linear', 'cubic'):
        A = (A + A.T) / 2
    r = numpy.random.RandomState(spec['sseed'])
    b = r.randn(n)
    cc = spec['coef']
    if spec['kind'] == 'linparam':
        A1 = c14.linparam_A1(spec, A, r)
        jac = lambda U, kappa=0.: A + kappa * A1
    elif spec['kind'] == 'mixed3':
        Mx = r.randn(n, n)
        jac = lambda U: A + cc * Mx * (3 * U**2)[numpy.newaxis, :]
    elif spec['kind'] == 'cubic':
        jac = lambda U: A + cc * numpy.diag(3 * U**2)
    else:
        jac = lambda U: A
    pool = {k: numpy.random.RandomState(case['aseed'] + k).randn(n) for k in range(3)}
    log = []
    probes = {}
    last = []
    nontrivial = False
    for oi, op in enumerate(case['ops']):
        U = pool[op['k']]
        args = {'u': U}
        before = U.copy()
        cmask = numpy.array(op['cmask'], dtype=bool)
        free = numpy.ones(n, dtype=bool)
        ka = {'kappa': op.get('kappa', 0.)} if spec['kind'] == 'linparam' else {}
        _resfun, _jac = resfun, jac
        resfun = (lambda V, f=_resfun, ka=ka: f(V, **ka))
        jac = (lambda V, f=_jac, ka=ka: f(V, **ka))
        sysargs, x = system.deconstruct({'u': U.copy(), **{k: numpy.array(v) for k, v in ka.items()}}, {'u': cmask.copy()} if op['cons'] == 'bool' else {'u': numpy.where(cmask, U, numpy.nan)} if op['cons'] == 'float' else {})
        if op['cons'] != 'none':
            free = ~cmask
        bad = None
        try:
            if op['op'] == 'residual':
                res = system.assemble_residual(sysargs, x)
                want = resfun(U)[free]
                if not numpy.allclose(res, want, rtol=1e-11, atol=1e-11):
                    bad = ('V-system-residual', f'assemble_residual differs from the dense model by {float(abs(res - want).max())}')
                last = [res]
            elif op['op'] == 'jacobian':
                J = system.assemble_jacobian(sysargs, x)
                want = jac(U)[numpy.ix_(free, free)]
                got = J.export('dense')
                if not numpy.allclose(got, want, rtol=1e-11, atol=1e-11):
                    bad = ('V-system-jacobian', f'assemble_jacobian differs from the dense model by {float(abs(got - want).max())}')
                last = []   # Matrix.export hands out the matrix' own storage: overwriting that is not overwriting a result of the compiled function
            elif op['op'] == 'jacobian_residual':
                J, res = system.assemble_jacobian_residual(sysargs, x)
                got = J.export('dense')
                if not numpy.allclose(got, jac(U)[numpy.ix_(free, free)], rtol=1e-11, atol=1e-11) or not numpy.allclose(res, resfun(U)[free], rtol=1e-11, atol=1e-11):
                    bad = ('V-system-jacobian-residual', 'assemble_jacobian_residual differs from the dense model')
                last = [res]
            elif op['op'] == 'value':
                if system.is_symmetric:
                    v = system.assemble_value(sysargs, x)
                    last = []
            else:
                try:
                    out = system.solve(arguments={'u': U.copy(), **{k: numpy.array(v) for k, v in ka.items()}}, constrain={'u': cmask.copy()} if op['cons'] == 'bool' else {}, tol=1e-9, maxiter=40)
                    u = out['u']
                    rr = resfun(u)[~cmask if op['cons'] == 'bool' else numpy.ones(n, bool)]
                    if not numpy.linalg.norm(rr) <= 1e-8:
                        bad = ('V-system-solve', f'solve returned with independent residual {float(numpy.linalg.norm(rr))}')
                    last = [u]
                except Exception as e:
                    if not c14._is_ok_exc(e):
                        raise
        except Exception as e:
            bad = ('E-call-raised', f'{op["op"]} raised {type(e).__name__}: {e}'[:300])
        if bad is None and not numpy.array_equal(U, before):
            bad = ('A-argument-modified', f'{op["op"]} modified the argument array it was given')
        resfun, jac = _resfun, _jac
        log.append((op['op'], op['k'], op['cons'], 'ok' if not bad else bad[0]))
        if bad:
            return finish(bad, log, probes, True, case)
        if op.get('scribble'):
            for arr in last:
                if isinstance(arr, numpy.ndarray) and arr.flags.writeable and arr.size:
                    arr[...] = POISON
                    probes['scribbled_arrays'] = probes.get('scribbled_arrays', 0) + 1
                    nontrivial = True
    return finish(None, log, probes, nontrivial, case)


def run_basis(case):
    from nutils import mesh, function
    ne = case['nelems']
    topo, geom = mesh.line(ne) if case['mesh'] == 'line' else mesh.rectilinear([ne, 2])

    def mk():
        return topo.basis(case['btype'], degree=case['degree'])
    pristine = mk()
    nel = len(topo)
    model = {i: (numpy.array(pristine.get_dofs(i)), numpy.array(pristine.get_coefficients(i)), int(pristine.get_ndofs(i))) for i in range(nel)}
    smp = topo.sample('gauss', 2)
    model_eval = numpy.array(smp.eval(pristine))
    basis = mk()
    log = []
    probes = {}
    nontrivial = False
    for op in case['ops']:
        i = op['ielem'] % nel
        bad = None
        if op['op'] == 'dofs':
            r = basis.get_dofs(i)
            if not numpy.array_equal(r, model[i][0]):
                bad = ('V-basis-dofs', f'get_dofs({i}) = {numpy.asarray(r).tolist()} instead of {model[i][0].tolist()}')
        elif op['op'] == 'coeffs':
            r = basis.get_coefficients(i)
            if not numpy.array_equal(r, model[i][1]):
                bad = ('V-basis-coeffs', f'get_coefficients({i}) changed')
        elif op['op'] == 'ndofs':
            r = basis.get_ndofs(i)
            if int(r) != model[i][2]:
                bad = ('V-basis-ndofs', f'get_ndofs({i}) = {r} instead of {model[i][2]}')
        else:
            r = smp.eval(basis)
            if not numpy.array_equal(r, model_eval):
                bad = ('V-basis-eval', 'evaluation of the basis changed')
        log.append((op['op'], i, 'ok' if not bad else bad[0]))
        if bad:
            return finish(bad, log, probes, True, case)
        if op.get('scribble') and isinstance(r, numpy.ndarray) and r.flags.writeable and r.size:
            r[...] = POISON if r.dtype.kind != 'b' else True
            probes['scribbled_arrays'] = probes.get('scribbled_arrays', 0) + 1
            nontrivial = True
        elif isinstance(r, numpy.ndarray) and not r.flags.writeable:
            probes['returned_array_readonly'] = probes.get('returned_array_readonly', 0) + 1
    return finish(None, log, probes, nontrivial, case)


def run_topo(case):
    from nutils import mesh, function
    ne = case['nelems']
    if case['mesh'] == 'line':
        topo, geom = mesh.line(ne)
        geom = geom[numpy.newaxis] if geom.ndim == 0 else geom
        ext = numpy.array([ne])
    elif case['mesh'] == 'quad':
        topo, geom = mesh.rectilinear([max(1, ne // 2), 2])
        ext = numpy.array([max(1, ne // 2), 2])
    else:
        topo, geom = mesh.unitsquare(max(1, ne // 2), 'triangle')
        ext = numpy.array([1, 1])
    nd = topo.ndims
    rng = random.Random(case['pseed'])
    s = function.Argument('s', ()) if case['witharg'] else case['scale']
    g = geom * (1 + geom / 16) * s     # mildly nonlinear: Newton needs several iterates, structured topologies cannot take their affine shortcut
    userargs = dict(s=numpy.array(case['scale'])) if case['witharg'] else {}
    snap = {k: v.copy() for k, v in userargs.items()}
    log, probes = [], {}
    J = function.J(geom)

    def args_untouched():
        if set(userargs) != set(snap):
            return ('A-argument-modified', f'the arguments dictionary passed by the caller now has keys {sorted(userargs)}')
        for k in snap:
            if not numpy.array_equal(userargs[k], snap[k]):
                return ('A-argument-modified', f'argument {k!r} was modified')
    if case['what'] == 'locate':
        # interior points (never on an element boundary), dyadic
        if case['mesh'] == 'tri':
            pool = []
            while len(pool) < case['npool']:
                p = numpy.array([(rng.randrange(0, 64) * 2 + 1) / 128 for _ in range(nd)])
                h = 1 / max(1, ne // 2)
                q = (p / h) % 1
                if abs(q[0] + q[1] - 1) > 1 / 32:
                    pool.append(p)
            pool = numpy.array(pool)
        else:
            pool = numpy.array([[(rng.randrange(0, 16 * int(e)) * 2 + 1) / 32 for e in ext] for _ in range(case['npool'])])
        targets = pool * (1 + pool / 16) * case['scale']
        kw = dict(eps=1e-10) if case['tolkind'] == 'eps' else dict(tol=1e-10) if case['tolkind'] == 'tol' else dict(eps=1e-10, tol=1e-7)
        if case['maxdist']:
            kw['maxdist'] = float(numpy.linalg.norm(ext) * case['scale'] * 2)
        # model: every pool point located ALONE (a fresh compiled function per point), in pristine state
        model = []
        for i in range(len(pool)):
            try:
                smp = topo.locate(g, targets[i:i + 1], arguments=dict(snap), **kw)
                model.append((int(smp.eval(topo.f_index)[0]), numpy.array(smp.eval(g, arguments=dict(snap))[0])))
            except Exception as e:
                return dict(verdict='discard', vclass='model-raises', detail=f'{type(e).__name__}: {e}'[:200])
            if not numpy.allclose(model[-1][1], targets[i], atol=1e-6):
                return dict(verdict='discard', vclass='model-disagreement', detail='a point located alone is not at its target')
        for op in case['ops']:
            idx = op['pts']
            bad = None
            try:
                w = numpy.array([1. + k for k in range(len(idx))]) if case['weights'] else None
                smp = topo.locate(g, targets[idx], arguments=userargs if case['witharg'] else None, weights=w, **kw)
                # the sample orders its points by element: compare as multisets of (element, image)
                got = sorted(zip(smp.eval(topo.f_index).tolist(), map(tuple, numpy.round(smp.eval(g, arguments=dict(snap)), 9).tolist())))
                want = sorted((model[i][0], tuple(numpy.round(model[i][1], 9).tolist())) for i in idx)
                if len(got) != len(want) or any(a[0] != b[0] or not numpy.allclose(a[1], b[1], atol=1e-8) for a, b in zip(got, want)):
                    bad = ('V-locate-depends-on-history', f'locating points {idx} together gives (element, image) {got}; each located alone (fresh function) gives {want}')
                elif case['weights'] and abs(float(smp.integrate(function.ones(()))) - float(w.sum())) > 1e-9:
                    bad = ('V-locate-depends-on-history', 'weights of the located sample do not sum to the given weights')
            except Exception as e:
                bad = ('E-call-raised', f'locate raised {type(e).__name__}: {e}'[:300])
            bad = bad or args_untouched()
            log.append(('locate', len(idx), len(set(idx)), 'ok' if not bad else bad[0]))
            if bad:
                return finish(bad, log, probes, True, case)
            probes['locate_calls'] = probes.get('locate_calls', 0) + 1
            probes['locate_points'] = probes.get('locate_points', 0) + len(idx)
        return finish(None, log, probes, any(len(op['pts']) > 1 for op in case['ops']), case)
    # trim: the level set function is compiled once per trim and called once per element
    x = geom
    lss = [(x[0] - 0.55 * float(ext[0])) * s, (numpy.sum(x * x) - 0.6 * float(ext[0]) ** 2) * s + 0 * J, (x[-1] - 0.3 * float(ext[-1]) + 0.2 * x[0]) * s]
    nel = len(topo)
    for op in case['ops']:
        ls = lss[op['ls']]
        bad = None
        try:
            tr = topo.trim(ls, maxrefine=op['maxrefine'], arguments=userargs if case['witharg'] else None)
            vol = float(tr.integrate(J, degree=2, arguments=dict(snap))) if len(tr) else 0.
            vols = 0.
            for i in range(nel):   # model: every element trimmed by a trim call of its own (fresh compiled level set function)
                sub = topo.take([i]).trim(ls, maxrefine=op['maxrefine'], arguments=dict(snap))
                vols += float(sub.integrate(J, degree=2, arguments=dict(snap))) if len(sub) else 0.
            if abs(vol - vols) > 1e-11 * (1 + abs(vols)):
                bad = ('V-trim-depends-on-history', f'trimmed volume {vol} differs from the sum of single-element trims {vols}')
        except Exception as e:
            bad = ('E-call-raised', f'trim raised {type(e).__name__}: {e}'[:300])
        bad = bad or args_untouched()
        log.append(('trim', op['ls'], op['maxrefine'], 'ok' if not bad else bad[0]))
        if bad:
            return finish(bad, log, probes, True, case)
        probes['trim_calls'] = probes.get('trim_calls', 0) + 1
    return finish(None, log, probes, nel > 1, case)


def worker_init():
    import nutils.evaluable, nutils.parallel, nutils.solver, nutils.mesh, nutils.function, nutils.topology
    import warnings
    warnings.simplefilter('ignore')


def run_case(case):
    import treelog, warnings
    warnings.simplefilter('ignore')
    numpy.seterr(all='ignore')
    with treelog.set(treelog.NullLog()):
        if case['kind'] == 'compiled':
            res = run_compiled(case)
            if res.get('vclass') == 'V-result-depends-on-history' and case['cfg'].get('cache'):
                # Is it the known finding?  Only if the violation disappears when the arrays handed out by the FIRST run that are
                # views of other arrays are left alone (those are views of constant intermediates taken before they were frozen).
                res2 = run_compiled(case, skip_first_run_views=True)
                if res2.get('verdict') == 'pass':
                    res['vclass'] = 'V-first-run-view-of-unfrozen-constant'
                    res['detail'] = 'only through a writable view handed out by the first run (before the cached constant it views was frozen): ' + str(res['detail'])
            return res
        if case['kind'] == 'system':
            return run_system(case)
        if case['kind'] == 'topo':
            return run_topo(case)
        return run_basis(case)


# ---------------------------------------------------------------------- shrinking

def shrink_candidates(case):
    c = case
    ops = c['ops']
    if len(ops) > 1:
        for red in shrink.list_reductions(ops):
            if red:
                yield shrink.with_key(c, 'ops', red)
    if c['kind'] == 'topo':
        for i, op in enumerate(ops):
            if len(op.get('pts', ())) > 1:
                for red in shrink.list_reductions(op['pts']):
                    if red:
                        yield shrink.with_key(c, ['ops', i, 'pts'], red)
        for key, simple in (('witharg', False), ('weights', False), ('maxdist', False), ('scale', 1.), ('mesh', 'line')):
            if c.get(key, simple) != simple:
                yield shrink.with_key(c, key, simple)
        for v in shrink.int_reductions(c['nelems'], 1):
            yield shrink.with_key(c, 'nelems', v)
    if c['kind'] == 'compiled':
        for key, simple in (('stats', False), ('compile_procs', 1)):
            if c['cfg'][key] != simple:
                yield shrink.with_key(c, ['cfg', key], simple)
        for key in ('simplify', 'optimize'):
            if not c['cfg'][key]:
                yield shrink.with_key(c, ['cfg', key], True)
        for key in ('n', 'm', 'k', 'n2', 'L', 'nelems'):
            if isinstance(c['prog'].get(key), int):
                for v in shrink.int_reductions(c['prog'][key], 1):
                    yield shrink.with_key(c, ['prog', key], v)
        for i, op in enumerate(ops):
            if op.get('faults'):
                yield shrink.with_key(c, ['ops', i, 'faults'], [])
            if op.get('how') not in (None, 'same'):
                yield shrink.with_key(c, ['ops', i, 'how'], 'same')
            if op.get('k'):
                yield shrink.with_key(c, ['ops', i, 'k'], 0)
