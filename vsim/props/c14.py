'''C14 - solvers return a certified solution or raise (opsim with a faulty numerical back end).  DESIGN.md 4.'''

import os, sys, json, copy, math, random, traceback, warnings as _pywarnings
import numpy
from .. import core, shrink

ID = 'C14'
LEVEL = 'exploration'
CASE_TIMEOUT = 60.0
CHUNK = 12
RULE = ('cases = seeded histories of 1-6 operations on ONE long-lived object (a matrix: solves with changing constraints/rhs/tolerances/solvers; or a solver.System: solve with every method, '
        'step sequences with bisection retry, solve_constraints, legacy wrappers) executed through the real nutils code on a fault-injecting numerical back end plugged in at matrix.backend(); '
        'faults are drawn per back-end call (inexact, non-finite, huge, stagnating result, MatrixError, LinAlgError/RuntimeError/FloatingPointError, failing preconditioner construction); '
        'every returned vector is certified with plain dense NumPy (never nutils matrices); distinct = SHA-1 of (operation kinds and parameters, fault kinds that fired, outcome kinds); '
        'non-trivial = at least one solve returned or raised after reaching the back end')
ASSUMPTIONS = [
    'NumPy/LAPACK are trusted for the dense oracle',
    'with atol = rtol = 0 the library documents "solve to machine precision" and checks finiteness only: inexact-result faults are injected only where a positive tolerance was requested; fault-free runs are checked for a small backward error',
    'only the numpy back end exists in this sandbox (no scipy, no MKL): the fault injector plays the role of an iterative or external direct solver that misbehaves',
    'slack factor (1+1e-9) on requested tolerances for rounding in the independent recomputation',
    'sampled inputs and fault sequences: evidence, not proof',
]
REAL_VS_STUB = {
    'real': ['nutils.matrix._base.Matrix.solve/solve_leniently/_solver/_solver_arnoldi/_solver_direct/submatrix/getprecon', 'NumpyMatrix', 'solver.System (assemble_*, solve, step, solve_constraints)',
             'Direct, Newton, ReuseNewton, LinesearchNewton (NormBased, MedianBased), Minimize, Arnoldi, Pseudotime', 'solve_linear, newton, minimize, pseudotime, thetamethod, optimize', 'numpy.linalg behind the back end'],
    'stub': ['fault injector wrapped around NumpyMatrix._precon_direct/_precon_diag (the plug-in seam matrix.backend(obj))'],
}

OK_EXC = ('MatrixError', 'ToleranceNotReached', 'BackendNotAvailable', 'SolverError')


def budget(tier):
    if tier == 'quick':
        return dict(n=3200, wall=75, dup=60)
    return dict(n=70000, wall=1500, dup=300)


# ---------------------------------------------------------------------- the faulty back end

class Plan:
    def __init__(self, faults):
        self.faults = {int(k): v for k, v in (faults or {}).items() if not str(k).startswith('s')}
        self.subfaults = {int(str(k)[1:]): v for k, v in (faults or {}).items() if str(k).startswith('s')}   # allocation failures inside the k-th sub-matrix extraction
        self.subs = 0
        self.calls = 0
        self.precons = 0
        self.fired = {}
        self.reached = 0

    def fire(self, kind):
        self.fired[kind] = self.fired.get(kind, 0) + 1


PLAN = Plan({})
_STATE = {}


def _make_backend():
    from nutils.matrix import _numpy, MatrixError

    class FaultyMatrix(_numpy.NumpyMatrix):

        def __add__(self, other):
            return FaultyMatrix(super().__add__(other).core)

        def __sub__(self, other):
            return FaultyMatrix(super().__sub__(other).core)

        def __mul__(self, other):
            return FaultyMatrix(super().__mul__(other).core)

        def __neg__(self):
            return FaultyMatrix(super().__neg__().core)

        @property
        def T(self):
            return FaultyMatrix(self.core.T)

        def _submatrix(self, rows, cols):
            PLAN.subs += 1
            if PLAN.subfaults.get(PLAN.subs):
                PLAN.fire('SUBMATRIX_ALLOC')
                raise MemoryError('injected: allocation of the sub-matrix failed')
            return FaultyMatrix(super()._submatrix(rows, cols).core)

        def _wrap(self, solve):
            def faulty(rhs):
                PLAN.calls += 1
                PLAN.reached += 1
                f = PLAN.faults.get(PLAN.calls)
                kind = f['kind'] if f else None
                if kind == 'RAISE_MATRIX':
                    PLAN.fire(kind)
                    raise MatrixError('injected: back end failed')
                if kind == 'RAISE_OTHER':
                    PLAN.fire(kind)
                    raise {'LinAlgError': numpy.linalg.LinAlgError, 'RuntimeError': RuntimeError, 'FloatingPointError': FloatingPointError, 'MemoryError': MemoryError}[f['exc']]('injected: back end failed')
                x = solve(rhs)
                if kind is None:
                    return x
                x = numpy.array(x)
                PLAN.fire(kind if kind != 'INEXACT' else f'INEXACT_{f["eps"]:g}')
                if kind == 'INEXACT':
                    r = numpy.random.RandomState(f.get('rs', 0))
                    x = x + f['eps'] * (abs(x).max() if x.size else 0.) * (r.rand(*x.shape) - .5) * 2
                elif kind == 'NONFINITE':
                    if x.size:
                        x.flat[f.get('pos', 0) % x.size] = {'nan': numpy.nan, 'inf': numpy.inf, '-inf': -numpy.inf}[f['val']]
                elif kind == 'HUGE':
                    x = x * 1e150 if abs(x).max(initial=0) else x + 1e150
                elif kind == 'STAGNATE':
                    x = numpy.zeros_like(x) if f.get('how') == 'zeros' else numpy.array(rhs, dtype=x.dtype)
                return x
            return faulty

        def _precon_direct(self):
            PLAN.precons += 1
            f = PLAN.faults.get(-PLAN.precons)
            if f:
                PLAN.fire('PRECON_' + f['kind'])
                if f['kind'] == 'RAISE_MATRIX':
                    raise MatrixError('injected: factorisation failed')
                raise numpy.linalg.LinAlgError('injected: factorisation failed')
            return self._wrap(super()._precon_direct())

        def _precon_diag(self):
            return self._wrap(super()._precon_diag())

    class Backend:
        @staticmethod
        def assemble(data, rowptr, colidx, ncols):
            return FaultyMatrix(_numpy.assemble(data, rowptr, colidx, ncols).core)

    return Backend()


# ---------------------------------------------------------------------- generation

def gen_matrix_spec(rng, n=None):
    n = n or rng.choice([1, 2, 3, 4, 5, 6, 8, 12])
    return dict(n=n, mseed=rng.randrange(1 << 30), cond=rng.choice(['id', 'well', 'well', 'well', 'ill6', 'ill12', 'singular', 'perm', 'rot']), sym=rng.random() < 0.4,
                cplx=rng.random() < 0.15, sparse=rng.random() < 0.4)


def make_matrix(spec):
    r = numpy.random.RandomState(spec['mseed'])
    n = spec['n']
    if spec['cond'] == 'id':
        A = numpy.eye(n)
    elif spec['cond'] in ('perm', 'rot'):
        A = structured_orthogonal(spec['cond'], n, r)
    else:
        Q1, _ = numpy.linalg.qr(r.randn(n, n))
        Q2, _ = numpy.linalg.qr(r.randn(n, n))
        if spec['cond'] == 'well':
            s = 1 + r.rand(n) * 4
        elif spec['cond'] == 'ill6':
            s = numpy.logspace(0, -6, n) if n > 1 else numpy.ones(1)
        elif spec['cond'] == 'ill12':
            s = numpy.logspace(0, -12, n) if n > 1 else numpy.ones(1)
        else:
            s = 1 + r.rand(n)
            s[r.randint(n)] = 0.
        A = (Q1 * s) @ (Q1.T if spec['sym'] else Q2.T)
        if spec['cond'] == 'singular':
            # make it exactly singular: duplicate a row (and column if symmetric) or zero one
            i = r.randint(n)
            if n > 1:
                j = (i + 1) % n
                A[i] = A[j]
                if spec['sym']:
                    A[:, i] = A[:, j]
            else:
                A[:] = 0
    if spec.get('sparse') and n > 2 and spec['cond'] in ('well', 'id'):
        mask = r.rand(n, n) < .5
        numpy.fill_diagonal(mask, True)
        if spec['sym']:
            mask = mask & mask.T
        A = A * mask + numpy.eye(n) * 3
    if spec.get('cplx'):
        A = A + 1j * (r.randn(n, n) * .3 if not spec['sym'] else numpy.zeros((n, n)))
    # structurally empty columns / rows (dofs without influence, equations without content): what solve_constraints is for
    for j in spec.get('zero_cols', ()):
        A[:, j % n] = 0
    for i in spec.get('zero_rows', ()):
        A[i % n, :] = 0
    for i, j, v in spec.get('small', ()):
        A[i % n, j % n] = v
    if spec.get('nonfinite'):
        i, j, v = spec['nonfinite']
        A[i % n, j % n] = {'nan': numpy.nan, 'inf': numpy.inf}[v]   # a coefficient that evaluated to something non-finite
    return A


def structured_orthogonal(kind, n, r):
    '''Exactly representable orthogonal matrices (signed permutations, quarter turns): Krylov spaces built with them break down exactly
    (orthogonal or repeated search directions), which is where the failure branches of the solvers are.'''
    A = numpy.zeros((n, n))
    if kind == 'perm':
        p = r.permutation(n)
        A[numpy.arange(n), p] = r.choice([-1., 1.], size=n)
    else:
        i = 0
        while i + 1 < n:
            A[i, i + 1], A[i + 1, i] = -1., 1.
            i += 2
        if i < n:
            A[i, i] = 1.
    return A


def linparam_A1(spec, A, r):
    '''Second matrix of the parameter dependent linear systems A + kappa A1.  `r` is the random state after the right hand side was drawn.'''
    n = spec['n']
    A1 = r.randn(n, n) * .3
    a1 = spec.get('a1', 'rand')
    if a1 in ('torot', 'toperm'):
        # A + 1 * A1 is a quarter turn / signed permutation: with the factorisation of A kept from an earlier solve the new search directions
        # are orthogonal to the residual or repeat themselves
        A1 = structured_orthogonal('rot' if a1 == 'torot' else 'perm', n, numpy.random.RandomState(spec['sseed'] + 1)) - A
    return A1


def gen_faults(rng, ncalls_hint=12, positive_tol=True):
    faults = {}
    nf = rng.choice([1, 1, 2, 3])
    for _ in range(nf):
        k = rng.randint(1, ncalls_hint)
        kinds = ['NONFINITE', 'RAISE_MATRIX', 'RAISE_OTHER', 'STAGNATE', 'HUGE', 'INEXACT', 'INEXACT']
        kind = rng.choice(kinds)
        f = dict(kind=kind)
        if kind == 'INEXACT':
            f.update(eps=rng.choice([1e-13, 1e-8, 1e-3, 1.]), rs=rng.randrange(1000))
        elif kind == 'NONFINITE':
            f.update(val=rng.choice(['nan', 'inf', '-inf']), pos=rng.randrange(50))
        elif kind == 'RAISE_OTHER':
            f.update(exc=rng.choice(['LinAlgError', 'RuntimeError', 'FloatingPointError']))
        elif kind == 'STAGNATE':
            f.update(how=rng.choice(['zeros', 'input']))
        faults[str(k)] = f
    if rng.random() < 0.15:
        faults[str(-rng.randint(1, 3))] = dict(kind=rng.choice(['RAISE_MATRIX', 'LINALG']))
    return faults


def gen_solve_op(rng, n):
    op = dict(op='solve', lenient=rng.random() < 0.15)
    r = rng.random()
    op['cons'] = 'none' if r < 0.3 else 'bool' if r < 0.6 else 'float'
    op['cmask'] = [rng.random() < 0.35 for _ in range(n)]
    op['rcons'] = rng.random() < 0.2
    op['rmask'] = None
    if op['rcons']:
        # same number of constrained rows as columns (square sub-block) most of the time
        m = list(op['cmask']) if op['cons'] != 'none' else [False] * n
        rng.shuffle(m)
        if rng.random() < 0.15 and n > 1:
            m[rng.randrange(n)] ^= True
        op['rmask'] = m
    op['lhs0'] = rng.random() < 0.4
    op['nrhs'] = rng.choice([0, 0, 0, 1, 2, 3])
    op['rhs'] = rng.choice(['rand', 'rand', 'rand', 'zero', 'none', 'tiny', 'zerocol'])
    op['vseed'] = rng.randrange(1 << 30)
    tol = rng.choice(['none', 'none', 'atol', 'rtol', 'both'])
    op['atol'] = rng.choice([1e-12, 1e-8, 1e-3]) if tol in ('atol', 'both') else 0.
    op['rtol'] = rng.choice([1e-12, 1e-8, 1e-3]) if tol in ('rtol', 'both') else 0.
    op['solver'] = rng.choice(['arnoldi', 'arnoldi', 'direct'])
    op['precon'] = rng.choice(['direct', 'direct', 'direct', 'diag'])
    # truncated Krylov only with the direct preconditioner: with a weak (diagonal) one the residual keeps decreasing by
    # negligible amounts and the loop, which has no iteration cap, runs for hours (slow convergence, not a violation)
    op['truncate'] = rng.choice([None, None, 1, 2]) if op['solver'] == 'arnoldi' and op['precon'] == 'direct' else None
    op['symmetric'] = rng.random() < 0.3
    return op


def vary_solve_op(rng, prev, n):
    '''The previous solve with ONE ingredient changed: the memo tables of a matrix object (sub-matrix, preconditioner) are keyed on some
    ingredients and must not serve an entry when another ingredient changed.'''
    op = copy.deepcopy(prev)
    what = rng.choice(['cols', 'cols-keep-rows', 'rows', 'rhs', 'solver', 'precon', 'tol', 'lhs0'])
    prev_rows = list(prev['rmask']) if prev.get('rcons') and prev.get('rmask') else (list(prev['cmask']) if prev['cons'] != 'none' else [False] * n)
    if what in ('cols', 'cols-keep-rows'):
        m = list(op['cmask'])
        if op['cons'] == 'none':
            op['cons'] = rng.choice(['bool', 'float'])
        if rng.random() < 0.6 and any(m) and not all(m):
            # same number of constrained columns, other positions
            i = rng.choice([k for k in range(n) if m[k]])
            j = rng.choice([k for k in range(n) if not m[k]])
            m[i], m[j] = m[j], m[i]
        else:
            i = rng.randrange(n)
            m[i] = not m[i]
        op['cmask'] = m
        if what == 'cols-keep-rows':
            op['rcons'] = True
            op['rmask'] = prev_rows
    elif what == 'rows':
        m = prev_rows[:]
        if any(m) and not all(m):
            i = rng.choice([k for k in range(n) if m[k]])
            j = rng.choice([k for k in range(n) if not m[k]])
            m[i], m[j] = m[j], m[i]
        op['rcons'] = True
        op['rmask'] = m
    elif what == 'rhs':
        op['vseed'] = rng.randrange(1 << 30)
        op['rhs'] = rng.choice(['rand', 'rand', 'zero', 'tiny', 'zerocol'])
    elif what == 'solver':
        op['solver'] = 'direct' if op['solver'] == 'arnoldi' else 'arnoldi'
        op['truncate'] = None
    elif what == 'precon':
        op['precon'] = 'diag' if op['precon'] == 'direct' else 'direct'
        op['truncate'] = None
    elif what == 'tol':
        op['atol'] = rng.choice([0., 1e-12, 1e-8, 1e-3])
        op['rtol'] = rng.choice([0., 0., 1e-8])
    else:
        op['lhs0'] = not op['lhs0']
    return op


def gen_system_spec(rng):
    n = rng.choice([1, 2, 3, 4, 6])
    kind = rng.choice(['linear', 'linear', 'linparam', 'linparam', 'cubic', 'cubic', 'mixed3', 'sqrt', 'time', 'time'])
    spec = dict(n=n, kind=kind, mat=gen_matrix_spec(rng, n), sseed=rng.randrange(1 << 30), functional=rng.random() < 0.5, coef=rng.choice([0.1, 1., 10.]))
    if kind == 'linparam':
        spec['a1'] = rng.choice(['rand', 'rand', 'torot', 'toperm'])
        if spec['a1'] != 'rand' and rng.random() < 0.7:
            spec['mat']['cond'] = rng.choice(['id', 'perm', 'rot'])
    # one Arnoldi method object serves a whole history: subspace size and the arguments of its inner linear solves vary per history
    spec['arn'] = dict(maxiter=rng.choice([1, 2, 2, 3, 5]), atol=rng.choice([0., 0., 1e-12, 1e-6, 1e-3]))
    if kind == 'linear' and rng.random() < 0.45 and n > 1:
        # rank-deficient by structure: columns (and, independently, rows) without entries; entries around the drop tolerance
        spec['mat'].update(cond='well', zero_cols=[rng.randrange(n) for _ in range(rng.choice([1, 1, 2]))],
                           zero_rows=[rng.randrange(n) for _ in range(rng.choice([0, 1, 1, 2]))],
                           small=[[rng.randrange(n), rng.randrange(n), rng.choice([1e-9, 1e-4, 0.5])] for _ in range(rng.choice([0, 1, 2]))])
        spec['structural'] = True
    return spec


def gen_system_op(rng, spec):
    n = spec['n']
    r = rng.random()
    linear = spec['kind'] in ('linear', 'linparam') or (spec['kind'] == 'time' and spec.get('tlin', True))
    if spec['kind'] == 'time':
        return dict(op='step', tol=rng.choice([1e-10, 1e-8, 1e-6]), timestep=rng.choice([0.5, 0.1, 1.0, 4.]), maxretry=rng.choice([0, 1, 2]),
                    method=rng.choice([None, None, 'newton', 'linesearch']), cons=rng.choice(['none', 'bool', 'float']), cmask=[rng.random() < 0.3 for _ in range(n)],
                    maxiter=rng.choice([5, 10, 30]), use_t=rng.random() < 0.7, use_dt=rng.random() < 0.8, vseed=rng.randrange(1 << 30))
    if linear and r < (0.6 if spec.get('structural') else 0.2):
        return dict(op='constraints', droptol=rng.choice([1e-12, 1e-6, 1e-2, 1.0] + ([0.3, 1.0, 1.0] if spec.get('structural') else [])), cons=rng.choice(['none', 'bool', 'float']), cmask=[rng.random() < 0.3 for _ in range(n)], vseed=rng.randrange(1 << 30))
    if spec['kind'] == 'linparam' and rng.random() < 0.6:
        method = 'arnoldi'   # the method that exists for parameter dependent linear systems: one object re-used along the history
    elif linear:
        method = rng.choice([None, None, 'direct', 'direct_noatol', 'arnoldi', 'arnoldi', 'newton', 'linesearch', 'minimize', 'legacy_linear', 'legacy_optimize', 'legacy_theta'])
    else:
        method = rng.choice([None, 'newton', 'newton', 'reuse', 'linesearch', 'linesearch_median', 'minimize', 'pseudotime', 'legacy_newton', 'legacy_minimize', 'legacy_optimize', 'legacy_pseudotime', 'legacy_theta'])
    op = dict(op='solve', method=method, cons=rng.choice(['none', 'none', 'bool', 'float']), cmask=[rng.random() < 0.3 for _ in range(n)],
              kappa=rng.choice([0., .5, 1., 1., 2., -1.]), guess=rng.choice(['none', 'rand', 'rand', 'far', 'prev', 'prev']), vseed=rng.randrange(1 << 30), maxiter=rng.choice([3, 10, 25, 60]), miniter=rng.choice([0, 0, 0, 1, 2]))
    op['tol'] = rng.choice([1e-10, 1e-8, 1e-5, 1e-2]) if (not linear or method not in (None, 'direct', 'legacy_linear') or rng.random() < 0.5) else 0.
    if method in ('direct', 'direct_noatol', 'arnoldi', None) and linear:
        op['twice_guess'] = rng.random() < 0.5   # metamorphic: result independent of the initial guess
    return op


def gen_project_case(rng):
    return dict(kind='project', spec=dict(n=0, kind='project', mesh=rng.choice(['line', 'quad']), nelems=rng.choice([1, 2, 3, 4]), degree=rng.choice([1, 2]), btype=rng.choice(['std', 'spline', 'discont'])),
                ops=[dict(op='project', where=rng.choice(['domain', 'boundary', 'left', 'right', 'left', 'right']), ptype='lsqr', fun=rng.choice(['x', 'x2', 'one', 'two', 'zero', 'zero']), atol=rng.choice([0., 0., 1e-10, 1e-6]),
                          solver=rng.choice(['arnoldi', 'direct']), exact_boundaries=rng.random() < 0.2, chain=rng.random() < 0.7) for _ in range(rng.choice([1, 2, 3, 4]))], faults={})


def gen_case(rng, index, tier):
    r = rng.random()
    if r < 0.03:
        case = gen_csystem_case(rng)
        if rng.random() < 0.3:
            case['faults'] = gen_faults(rng, ncalls_hint=rng.choice([3, 8]))
        return case
    if r < 0.11:
        case = gen_project_case(rng)
        if rng.random() < 0.5:
            case['faults'] = gen_faults(rng, ncalls_hint=rng.choice([2, 4]))
        return case
    if r < 0.55:
        spec = gen_matrix_spec(rng, rng.choice([16, 24]) if tier == 'thorough' and rng.random() < 0.15 else None)
        ops = [gen_solve_op(rng, spec['n']) for _ in range(rng.choice([1, 2, 3, 4, 6] + ([10] if tier == 'thorough' else [])))]
        for k in range(1, len(ops)):
            if rng.random() < 0.45:
                ops[k] = vary_solve_op(rng, ops[k - 1], spec['n'])
        if rng.random() < 0.05:
            spec['nonfinite'] = [rng.randrange(spec['n']), rng.randrange(spec['n']), rng.choice(['nan', 'nan', 'inf'])]
        case = dict(kind='matrix', spec=spec, ops=ops, faults={})
        if rng.random() < 0.12 and len(ops) > 1:
            # an allocation failure inside one of the sub-matrix extractions of this history (the memo of the matrix object is written around it)
            case['faults'] = {'s%d' % rng.randint(1, len(ops)): dict(kind='SUBMATRIX_ALLOC')}
            case['_subfault'] = True
    else:
        spec = gen_system_spec(rng)
        ops = [gen_system_op(rng, spec) for _ in range(rng.choice([1, 1, 2, 3, 5] if spec['kind'] not in ('time', 'linparam') else [1, 2, 3, 4, 6]))]
        for k in range(1, len(ops)):
            if ops[k - 1]['op'] == 'solve' and rng.random() < 0.4:
                # the previous solve again with one thing changed (parameter, warm start, constraints): what re-used method objects and memo tables see in practice
                o = copy.deepcopy(ops[k - 1])
                what = rng.choice(['kappa', 'guess', 'cmask', 'tol', 'kappa+guess'])
                if 'kappa' in what:
                    o['kappa'] = rng.choice([0., .5, 1., 1., 2., -1.])
                if 'guess' in what:
                    o['guess'] = 'prev'
                if what == 'cmask' and spec['n'] > 1:
                    i = rng.randrange(spec['n'])
                    o['cmask'][i] = not o['cmask'][i]
                if what == 'tol' and o.get('tol'):
                    o['tol'] = o['tol'] * rng.choice([1e-3, 1e3])
                o['vseed'] = rng.randrange(1 << 30) if rng.random() < 0.5 else o['vseed']
                ops[k] = o
        case = dict(kind='system', spec=spec, ops=ops, faults={})
    if rng.random() < 0.5 and not case.pop('_subfault', False):
        case['faults'] = gen_faults(rng, ncalls_hint=rng.choice([3, 8, 20]))
        if rng.random() < 0.3:
            # a fault on the very first back-end call: the one a single direct solve makes
            case['faults']['1'] = rng.choice([dict(kind='STAGNATE', how='zeros'), dict(kind='STAGNATE', how='input'), dict(kind='HUGE'), dict(kind='INEXACT', eps=1., rs=1), dict(kind='NONFINITE', val='nan', pos=0)])
    return case


# ---------------------------------------------------------------------- execution: matrix histories

def _vec(seed, shape, cplx=False, scale=1.):
    r = numpy.random.RandomState(seed)
    v = r.randn(*shape) * scale
    if cplx:
        v = v + 1j * r.randn(*shape)
    return v


def _norm(v):
    if v.size == 0:
        return 0.
    return float(numpy.linalg.norm(v, axis=0).max())


def run_matrix(case, B):
    from nutils import matrix
    A = make_matrix(case['spec'])
    n = A.shape[0]
    cplx = bool(case['spec'].get('cplx'))
    rows, cols = numpy.nonzero(A)
    rowptr = numpy.searchsorted(rows, numpy.arange(n + 1))
    with matrix.backend(B):
        M = matrix.assemble_csr(A[rows, cols], rowptr, cols, n)
        A = M.export('dense').copy()
        log = []
        for oi, op in enumerate(case['ops']):
            shape = (n,) + ((op['nrhs'],) if op['nrhs'] else ())
            if op['rhs'] == 'none':
                rhs = None
            elif op['rhs'] == 'zero':
                rhs = numpy.zeros(shape, dtype=A.dtype)
            elif op['rhs'] == 'tiny':
                rhs = _vec(op['vseed'], shape, cplx, 1e-14).astype(A.dtype)
            elif op['rhs'] == 'zerocol':
                rhs = _vec(op['vseed'], shape, cplx).astype(A.dtype)
                if rhs.ndim == 2:
                    rhs[:, op['vseed'] % rhs.shape[1]] = 0   # one of several right hand sides is zero
            else:
                rhs = _vec(op['vseed'], shape, cplx).astype(A.dtype)
            kw = {}
            cmask = numpy.array(op['cmask'], dtype=bool)
            cvals = _vec(op['vseed'] + 1, (n,), cplx)
            lhs0 = _vec(op['vseed'] + 2, (n,), cplx).astype(A.dtype) if op['lhs0'] else None
            if op['cons'] == 'bool':
                kw['constrain'] = cmask.copy()
            elif op['cons'] == 'float':
                c = numpy.full(n, numpy.nan, dtype=A.dtype)
                c[cmask] = cvals[cmask]
                kw['constrain'] = c
            if op['rmask'] is not None:
                kw['rconstrain'] = numpy.array(op['rmask'], dtype=bool)
            if lhs0 is not None:
                kw['lhs0'] = lhs0.copy()
            if op['atol']:
                kw['atol'] = op['atol']
            if op['rtol']:
                kw['rtol'] = op['rtol']
            kw['solver'] = op['solver']
            if op['precon'] != 'direct':
                kw['precon'] = op['precon']
            if op['truncate'] is not None:
                kw['truncate'] = op['truncate']
            if op['symmetric']:
                kw['symmetric'] = True
            reached0 = PLAN.reached
            fired0 = dict(PLAN.fired)
            for attempt in (0, 1):
                nsub0 = PLAN.fired.get('SUBMATRIX_ALLOC', 0)
                try:
                    x = (M.solve_leniently if op['lenient'] else M.solve)(rhs, **{k: (v.copy() if isinstance(v, numpy.ndarray) else v) for k, v in kw.items()})
                    outcome = ('return', x)
                except Exception as e:
                    outcome = ('raise', type(e).__name__, str(e)[:200], _is_ok_exc(e))
                    if isinstance(e, MemoryError) and PLAN.fired.get('SUBMATRIX_ALLOC', 0) > nsub0 and attempt == 0:
                        # the injected allocation failure surfaced as itself: fine.  The caller tries again - the retry must be served a correct answer
                        log.append((op['op'], 'raise', 'MemoryError(injected)', PLAN.reached - reached0))
                        continue
                break
            faulted = PLAN.fired != fired0
            log.append((op['op'], outcome[0], outcome[1] if outcome[0] == 'raise' else '', PLAN.reached - reached0))
            op = dict(op, _cond=case['spec']['cond'])
            bad = check_matrix_solve(A, op, rhs, kw, lhs0, outcome, faulted, cplx)
            if bad:
                return bad[0], f'op {oi} ({_opdesc(op)}): {bad[1]}', log
    return None, None, log


def _opdesc(op):
    return ','.join(f'{k}={op[k]}' for k in ('solver', 'precon', 'cons', 'rcons', 'lhs0', 'nrhs', 'rhs', 'atol', 'rtol', 'lenient', 'truncate') if k in op)


def _is_ok_exc(e):
    from nutils import matrix, solver
    return isinstance(e, (matrix.MatrixError, solver.SolverError))


def check_matrix_solve(A, op, rhs, kw, lhs0, outcome, faulted, cplx):
    n = A.shape[0]
    if outcome[0] == 'raise':
        if outcome[3]:
            return None
        return ('E-unexpected-exception:' + outcome[1], f'{outcome[1]}: {outcome[2]} escaped from Matrix.solve (only matrix/solver errors may)')
    x = numpy.asarray(outcome[1])
    nrhs = op['nrhs'] if rhs is not None else 0
    shape = (n,) + ((nrhs,) if nrhs else ())
    if x.shape != shape:
        return ('R-shape', f'returned shape {x.shape}, expected {shape}')
    if not numpy.isfinite(x).all():
        return ('R-non-finite', f'returned vector has non-finite entries: {x.ravel()[:6].tolist()}')
    b = numpy.zeros(shape, dtype=A.dtype) if rhs is None else rhs
    # the starting vector after applying the initial value and the constraints
    x0 = numpy.zeros(shape, dtype=A.dtype)
    if lhs0 is not None:
        x0[:] = lhs0.reshape((n,) + (1,) * (len(shape) - 1))
    cons = kw.get('constrain')
    if cons is None:
        J = numpy.ones(n, dtype=bool)
    elif cons.dtype == bool:
        J = ~cons
    else:
        J = numpy.isnan(cons)
        x0[~J] = cons[~J].reshape((-1,) + (1,) * (len(shape) - 1))
    if (x[~J] != x0[~J]).any():
        return ('R-constraint-violated', f'constrained entries differ from their prescribed values: got {x[~J].ravel()[:4].tolist()}, prescribed {x0[~J].ravel()[:4].tolist()}')
    I = ~kw['rconstrain'] if 'rconstrain' in kw else J
    with numpy.errstate(all='ignore'):
        rfree = (b - A @ x)[I]
    if not numpy.isfinite(rfree).all() and not faulted and numpy.isfinite(x).all() and not (x == 0).all():   # the zero vector (zero right hand side, or one within the requested tolerance) is returned without looking at the matrix
        # the matrix holds a non-finite coefficient that takes part in the free equations: their residual cannot be evaluated, let alone be within
        # any tolerance; nothing may be returned as a solution
        return ('R-non-finite-residual-accepted', f'the residual of the free equations at the returned vector is non-finite ({numpy.asarray(rfree).ravel()[:4].tolist()}) but the solve returned {x.ravel()[:4].tolist()}')
    if op['lenient']:
        return None
    if not numpy.isfinite(A).all():
        # the non-finite coefficient takes no part in the free equations (see above): certify with it masked out
        A = numpy.where(numpy.isfinite(A), A, 0.)
        if not numpy.isfinite((b - A @ x0)[I]).all():
            return None
    r0 = _norm((b - A @ x0)[I])
    tau = max(op['atol'], op['rtol'] * r0)
    res = _norm((b - A @ x)[I])
    # the certificate cannot be sharper than the rounding error of evaluating b - A x in floating point
    rounding = 64 * numpy.finfo(float).eps * (float(numpy.linalg.norm(A, 2)) * (_norm(x) + _norm(x0)) + _norm(b)) * max(1, n)
    if tau > 0:
        if not res <= tau * (1 + 1e-9) + rounding + 1e-300:
            return ('R-tolerance-not-met', f'residual {res:.3e} of the free equations exceeds the requested tolerance {tau:.3e} (atol={op["atol"]}, rtol={op["rtol"]}, initial {r0:.3e})')
    elif not faulted and op['precon'] == 'direct' and op.get('_cond') != 'singular':
        # machine precision was requested and the back end was honest: backward error must be small
        scale = float(numpy.linalg.norm(A[numpy.ix_(I, J)], 2) if I.any() and J.any() else 0.) * _norm(x[J] - x0[J]) + r0
        if not res <= 1e-8 * scale + 1e-300:
            return ('R-machine-precision', f'no tolerance requested, honest back end, but residual {res:.3e} is large compared with {scale:.3e}')
    elif not faulted and op['solver'] == 'arnoldi' and op['precon'] != 'direct' and op.get('truncate') is None:
        # "solve to machine precision" (the documented meaning of atol = rtol = 0) with a preconditioner that does not itself fail on a
        # singular matrix: the Krylov loop ends on stagnation or breakdown and hands back whatever it has (known finding, see DESIGN 13)
        scale = float(numpy.linalg.norm(A[numpy.ix_(I, J)], 2) if I.any() and J.any() else 0.) * _norm(x[J] - x0[J]) + r0
        if not res <= 1e-6 * scale + 1e-300:
            return ('R-no-tolerance-stagnated-iterate-returned', f'no tolerance requested (= machine precision), honest back end, arnoldi with precon={op["precon"]}: returned silently with residual {res:.3e} (scale {scale:.3e}, matrix condition class {op.get("_cond")})')
    return None


# ---------------------------------------------------------------------- execution: System histories

def build_system(spec):
    '''Returns (system, numpy model) for a residual r(u; t, dt, u0) = 0.'''
    from nutils import function, solver
    n = spec['n']
    A = make_matrix(dict(spec['mat'], cplx=False))
    r = numpy.random.RandomState(spec['sseed'])
    b = r.randn(n)
    kind = spec['kind']
    c = spec['coef']
    u = function.Argument('u', (n,))
    fA = function.Array.cast(A)
    fb = function.Array.cast(b)
    if kind in ('linear', 'cubic', 'sqrt') and spec['functional'] :
        S = (A + A.T) / 2
        fS = function.Array.cast(S)
        if kind == 'linear':
            val = .5 * (u @ (fS @ u)) - fb @ u
            res = lambda U, **k: S @ U - b
        elif kind == 'cubic':
            val = .5 * (u @ (fS @ u)) - fb @ u + c * numpy.sum(u**4) / 4
            res = lambda U, **k: S @ U - b + c * U**3
        else:
            val = .5 * (u @ (fS @ u)) - fb @ u + c * numpy.sum(numpy.sqrt(u + 2.) )
            res = lambda U, **k: S @ U - b + c * .5 / numpy.sqrt(U + 2.)
        system = solver.System(val, trial='u')
        return system, res, dict(symmetric=True)
    if kind == 'linear':
        vec = fA @ u - fb
        res = lambda U, **k: A @ U - b
    elif kind == 'linparam':
        A1 = linparam_A1(spec, A, r)
        kappa = function.Argument('kappa', ())
        vec = (fA + kappa * function.Array.cast(A1)) @ u - fb
        res = lambda U, kappa=0., **k: (A + kappa * A1) @ U - b
    elif kind == 'cubic':
        vec = fA @ u - fb + c * u**3
        res = lambda U, **k: A @ U - b + c * U**3
    elif kind == 'mixed3':
        Mx = r.randn(n, n)
        fM = function.Array.cast(Mx)
        vec = fA @ u - fb + c * (fM @ u**3)
        res = lambda U, **k: A @ U - b + c * (Mx @ U**3)
    elif kind == 'sqrt':
        vec = fA @ u - fb + c * numpy.sqrt(u + 2.)
        res = lambda U, **k: A @ U - b + c * numpy.sqrt(U + 2.)
    elif kind == 'time':
        t = function.Argument('t', ())
        dt = function.Argument('dt', ())
        u0 = function.Argument('u0', (n,))
        nl = c if spec['sseed'] % 2 else 0.
        spec['tlin'] = not nl
        vec = (u - u0) / dt + fA @ u - fb * (1 + t) + nl * u**3
        res = lambda U, t=0., dt=1., u0=None, **k: (U - u0) / dt + A @ U - b * (1 + t) + nl * U**3
    system = solver.System((vec,), trial='u')
    return system, res, dict(symmetric=False)


def _method(op, system, spec):
    from nutils import solver
    m = op.get('method')
    tol = op.get('tol', 0.)
    if m is None or m.startswith('legacy_'):
        return None
    if m == 'direct':
        return solver.Direct(atol=tol) if tol else solver.Direct()
    if m == 'direct_noatol':
        return solver.Direct()
    if m == 'arnoldi':
        # one Arnoldi object per history: it keeps the previous factorisation for reuse when the matrix changes
        if 'arnoldi' not in _STATE:
            arn = spec.get('arn') or dict(maxiter=2, atol=0.)
            _STATE['arnoldi'] = solver.Arnoldi(maxiter=arn['maxiter'], **({'atol': arn['atol']} if arn['atol'] else {}))
        return _STATE['arnoldi']
    if m == 'newton':
        return solver.Newton()
    if m == 'reuse':
        return solver.ReuseNewton()
    if m == 'linesearch':
        return solver.LinesearchNewton()
    if m == 'linesearch_median':
        return solver.LinesearchNewton(strategy=solver.MedianBased())
    if m == 'minimize':
        return solver.Minimize()
    if m == 'pseudotime':
        from nutils import function
        u = function.Argument('u', (spec['n'],))
        return solver.Pseudotime(inertia=(u,), timestep=1.)
    raise ValueError(m)


def run_system(case, B):
    from nutils import matrix, solver, function
    spec = case['spec']
    n = spec['n']
    with matrix.backend(B):
        system, resfun, info = build_system(spec)
        log = []
        state = dict(u=numpy.zeros(n), t=0.)
        arnoldi = None
        for oi, op in enumerate(case['ops']):
            cmask = numpy.array(op['cmask'], dtype=bool)
            cvals = _vec(op['vseed'] + 1, (n,))
            constrain = {}
            if op['cons'] == 'bool':
                constrain = {'u': cmask.copy()}
            elif op['cons'] == 'float':
                c = numpy.full(n, numpy.nan)
                c[cmask] = cvals[cmask]
                constrain = {'u': c}
            fired0 = dict(PLAN.fired)
            reached0 = PLAN.reached
            bad = None
            try:
                if op['op'] == 'solve':
                    bad, outkind = _do_solve(system, resfun, info, spec, op, constrain, cmask, cvals)
                elif op['op'] == 'step':
                    bad, outkind = _do_step(system, resfun, spec, op, constrain, cmask, cvals, state)
                else:
                    bad, outkind = _do_constraints(system, spec, op, constrain, cmask, cvals)
            except Exception as e:
                outkind = 'raise:' + type(e).__name__
                if not _is_ok_exc(e):
                    if isinstance(e, ValueError) and ('problem is not symmetric' in str(e) or 'value is not defined' in str(e) or 'problem is not linear' in str(e)):
                        outkind = 'rejected:' + str(e)[:30]   # documented rejection of a method that does not apply
                    else:
                        bad = ('E-unexpected-exception:' + type(e).__name__, f'{type(e).__name__}: {str(e)[:200]} escaped (only solver/matrix errors may); ' + traceback.format_exc()[-600:])
            log.append((op['op'], str(op.get('method')), outkind, PLAN.reached - reached0))
            if bad:
                return bad[0], f'op {oi} ({json.dumps({k: v for k, v in op.items() if k not in ("cmask", "vseed")})}): {bad[1]}', log
    return None, None, log


def gen_csystem_case(rng):
    n = rng.choice([2, 3, 4, 6])
    ops = [dict(op='csolve', kappa=rng.choice([0., .5, 1., 1.3, 2., 5., -1.]), method=rng.choice(['arnoldi', 'arnoldi', 'arnoldi', 'direct', 'newton']), tol=rng.choice([1e-10, 1e-8, 1e-5]),
                guess=rng.choice(['none', 'prev', 'prev'])) for _ in range(rng.choice([2, 3, 4, 5]))]
    return dict(kind='csystem', spec=dict(n=n, kind='csystem', sseed=rng.randrange(1 << 30), arn=dict(maxiter=rng.choice([1, 2, 3]), atol=0.)), ops=ops, faults={})


def run_csystem(case, B):
    '''A COMPLEX-valued parameter dependent linear system solved along a history with one Arnoldi method object (and Direct, Newton): the same certificate as for real systems.'''
    from nutils import matrix, solver, function
    spec = case['spec']
    n = spec['n']
    r = numpy.random.RandomState(spec['sseed'])
    A = r.randn(n, n) + 1j * r.randn(n, n) + numpy.eye(n) * (3 + 1j)
    A1 = (r.randn(n, n) + 1j * r.randn(n, n)) * .4
    b = r.randn(n) + 1j * r.randn(n)
    log = []
    with matrix.backend(B):
        u = function.Argument('u', (n,), dtype=complex)
        k = function.Argument('kappa', ())
        system = solver.System(((function.Array.cast(A) + k * function.Array.cast(A1)) @ u - function.Array.cast(b),), trial='u')
        arn = solver.Arnoldi(maxiter=spec['arn']['maxiter'])
        last = None
        for oi, op in enumerate(case['ops']):
            args = {'kappa': numpy.array(op['kappa'])}
            if op['guess'] == 'prev' and last is not None:
                args['u'] = last.copy()
            m = {'arnoldi': arn, 'direct': solver.Direct(), 'newton': solver.Newton()}[op['method']]
            fired0 = dict(PLAN.fired)
            try:
                out = system.solve(arguments=args, method=m, tol=op['tol'], maxiter=20)
            except Exception as e:
                log.append(('csolve', op['method'], 'raise:' + type(e).__name__))
                if not _is_ok_exc(e):
                    return 'E-unexpected-exception:' + type(e).__name__, f'op {oi}: {type(e).__name__}: {str(e)[:200]} escaped (only solver/matrix errors may)', log
                continue
            x = numpy.asarray(out['u'])
            log.append(('csolve', op['method'], 'return'))
            if not numpy.isfinite(x).all():
                return 'R-non-finite', f'op {oi}: returned non-finite values', log
            M = A + op['kappa'] * A1
            rn = float(numpy.linalg.norm(M @ x - b))
            slack = 64 * numpy.finfo(float).eps * (float(numpy.linalg.norm(M, 2)) * float(numpy.linalg.norm(x)) + float(numpy.linalg.norm(b))) * n
            if not rn <= op['tol'] * (1 + 1e-9) + slack:
                return 'R-tolerance-not-met', f'op {oi} ({json.dumps(op)}): complex system, solve(method={op["method"]}) returned with independent residual norm {rn:.3e} > requested tolerance {op["tol"]:.1e}', log
            last = x
    return None, None, log


def _guess(op, n):
    if op.get('guess', 'none') == 'none':
        return None
    if op['guess'] == 'prev':
        # warm start from the solution returned by the previous solve of this history (continuation in a parameter)
        last = _STATE.get('last_solution')
        return None if last is None or len(last) != n else last.copy()
    g = _vec(op['vseed'] + 5, (n,))
    return g * (50. if op['guess'] == 'far' else 1.)


def _expected_constrained(op, cmask, cvals, guess, n):
    want = numpy.full(n, numpy.nan)
    if op['cons'] == 'bool':
        want[cmask] = (guess if guess is not None else numpy.zeros(n))[cmask]
    elif op['cons'] == 'float':
        want[cmask] = cvals[cmask]
    return want


def _certify(u, want, resfun, tol, what, gnorm=0., **resargs):
    if not numpy.isfinite(u).all():
        return ('R-non-finite', f'{what} returned non-finite values {u[:6].tolist()}')
    fixed = ~numpy.isnan(want)
    if (u[fixed] != want[fixed]).any():
        return ('R-constraint-violated', f'{what}: constrained entries {u[fixed][:4].tolist()} differ from prescribed {want[fixed][:4].tolist()}')
    if tol > 0:
        with numpy.errstate(all='ignore'):
            r = resfun(u, **resargs)[~fixed]
        rn = float(numpy.linalg.norm(r))
        # slack: rounding error of evaluating the residual itself (bound on the magnitude of its terms times a few ulp)
        # ... and of forming the iterate itself: an update applied to a starting vector of norm g leaves an absolute error of a few ulp of g
        # in the result (a solve started from a huge vector cannot do better in one step, and the methods report the residual their
        # update predicts, not one re-evaluated at the rounded iterate)
        au = max(float(numpy.linalg.norm(u)), float(gnorm))
        mag = 30 * (1 + au + au**3) * (1 + abs(resargs.get('t', 0.))) * (1 + 1 / abs(resargs.get('dt', 1.)))
        if 'u0' in resargs and resargs['u0'] is not None:
            mag += float(numpy.linalg.norm(resargs['u0'])) / abs(resargs.get('dt', 1.))
        if not rn <= tol * (1 + 1e-9) + 64 * numpy.finfo(float).eps * mag * len(u):
            return ('R-tolerance-not-met', f'{what} returned with independent residual norm {rn:.3e} > requested tolerance {tol:.1e}')
    return None


def _do_solve(system, resfun, info, spec, op, constrain, cmask, cvals):
    from nutils import solver, function
    n = spec['n']
    guess = _guess(op, n)
    args = {} if guess is None else {'u': guess.copy()}
    resargs = {}
    if spec['kind'] == 'linparam':
        args['kappa'] = numpy.array(op.get('kappa', 0.))
        resargs['kappa'] = op.get('kappa', 0.)
    want = _expected_constrained(op, cmask, cvals, guess, n)
    tol = op.get('tol', 0.)
    m = op.get('method')
    linear = system.is_linear
    if m and m.startswith('legacy_') and spec['kind'] == 'linparam':
        return None, 'skipped'
    if m in ('legacy_minimize', 'legacy_optimize') and not info['symmetric']:
        return None, 'skipped'
    if m == 'legacy_theta':
        return _do_theta(spec, resfun, op, constrain, cmask, cvals, guess, want)
    if m == 'legacy_linear':
        # legacy wrapper: residual vector form
        u = solver.solve_linear('u', _legacy_residual(spec), constrain=constrain.get('u'), **({'lhs0': guess} if guess is not None else {}))
        out = {'u': u}
        tol = 0.
    elif m == 'legacy_newton':
        u = solver.newton('u', _legacy_residual(spec), constrain=constrain.get('u'), **({'lhs0': guess} if guess is not None else {})).solve(tol=tol, maxiter=op['maxiter'])
        out = {'u': u}
    elif m == 'legacy_minimize':
        u = solver.minimize('u', _legacy_functional(spec), constrain=constrain.get('u'), **({'lhs0': guess} if guess is not None else {})).solve(tol=tol, maxiter=op['maxiter'])
        out = {'u': u}
    elif m == 'legacy_optimize':
        u = solver.optimize('u', _legacy_functional(spec), tol=tol, constrain=constrain.get('u'), **({'lhs0': guess} if guess is not None else {}))
        out = {'u': u}
    elif m == 'legacy_pseudotime':
        uu = function.Argument('u', (n,))
        u = solver.pseudotime('u', _legacy_residual(spec), uu, 1., constrain=constrain.get('u'), **({'lhs0': guess} if guess is not None else {})).solve(tol=tol, maxiter=op['maxiter'])
        out = {'u': u}
    else:
        kw = dict(arguments=args, constrain=constrain, method=_method(op, system, spec))
        if tol:
            kw['tol'] = tol
        if not (linear and m in (None, 'direct')):
            kw['maxiter'] = op['maxiter']
            if op.get('miniter'):
                kw['miniter'] = op['miniter']
            if not tol:
                kw['tol'] = tol = 1e-8
        out = system.solve(**kw)
    u = numpy.asarray(out['u'], dtype=float)
    bad = _certify(u, want, resfun, tol, f'solve(method={m})', gnorm=(float(numpy.linalg.norm(guess)) if guess is not None else 0.), **resargs)
    if bad:
        return bad, 'return'
    _STATE['last_solution'] = u.copy()
    if linear and tol == 0 and not PLAN.fired and spec['mat']['cond'] != 'singular' and spec['kind'] != 'linparam':
        with numpy.errstate(all='ignore'):
            r = resfun(u)[numpy.isnan(want)]
        A = make_matrix(dict(spec['mat'], cplx=False))
        scale = float(numpy.linalg.norm(A, 2)) * max(float(numpy.linalg.norm(u)), float(numpy.linalg.norm(guess)) if guess is not None else 0.) + 1   # cancellation against a huge starting vector included
        if not float(numpy.linalg.norm(r)) <= 1e-7 * scale:
            return ('R-machine-precision', f'linear solve without tolerance on an honest back end left residual {float(numpy.linalg.norm(r)):.3e}'), 'return'
    if op.get('twice_guess') and linear and not PLAN.faults and op['cons'] != 'bool' and spec['kind'] != 'linparam' and m != 'arnoldi':
        # metamorphic: for linear problems the result does not depend on the initial guess
        g2 = _vec(op['vseed'] + 9, (n,)) * 3
        kw2 = dict(arguments={'u': g2}, constrain=constrain, method=_method(op, system, spec))
        if tol:
            kw2['tol'] = tol
        out2 = system.solve(**kw2)
        u2 = numpy.asarray(out2['u'], dtype=float)
        A = make_matrix(dict(spec['mat'], cplx=False))
        free = numpy.isnan(want)
        if free.any():
            cond = numpy.linalg.cond(A[numpy.ix_(free, free)]) if spec['mat']['cond'] != 'singular' else numpy.inf
            bound = (max(tol, 1e-12) * 10 + 1e-9) * (1 + abs(u).max()) * min(cond, 1e16)
            if numpy.isfinite(cond) and cond < 1e6 and not (abs(u - u2) <= bound).all():
                return ('M-initial-guess-dependence', f'linear solve from two initial guesses differs by {float(abs(u - u2).max()):.3e} (cond {cond:.1e})'), 'return'
    return None, 'return'


def _legacy_functional(spec):
    from nutils import function
    n = spec['n']
    A = make_matrix(dict(spec['mat'], cplx=False))
    r = numpy.random.RandomState(spec['sseed'])
    b = r.randn(n)
    c = spec['coef']
    u = function.Argument('u', (n,))
    S = (A + A.T) / 2
    val = .5 * (u @ (function.Array.cast(S) @ u)) - function.Array.cast(b) @ u
    if spec['kind'] == 'cubic':
        val = val + c * numpy.sum(u**4) / 4
    elif spec['kind'] == 'sqrt':
        val = val + c * numpy.sum(numpy.sqrt(u + 2.))
    return val


def _do_theta(spec, resfun, op, constrain, cmask, cvals, guess, want):
    '''legacy thetamethod: theta*r(u1) + (1-theta)*r(u0) + (u1-u0)/dt = 0 per step, certified step by step'''
    from nutils import solver, function
    n = spec['n']
    theta = (0.5, 1.0)[op['vseed'] % 2]
    dt = (0.5, 0.1)[(op['vseed'] // 2) % 2]
    tol = op.get('tol') or 1e-8
    u0 = guess if guess is not None else numpy.zeros(n)
    if op['cons'] == 'float':
        # initial condition consistent with the prescribed values
        u0 = numpy.where(cmask, cvals, u0)
    uu = function.Argument('u', (n,))
    gen = solver.thetamethod('u', _legacy_residual(spec), uu, dt, theta, lhs0=u0.copy(), constrain=constrain.get('u'), newtontol=tol)
    prev = None
    retries0 = _STATE.get('retries', 0)
    for istep, u in enumerate(gen):
        u = numpy.asarray(u, dtype=float)
        if istep == 0:
            prev = u
            continue
        if _STATE.get('retries', 0) != retries0:
            # a failed solve made step() bisect the time step: the result then solves two half steps, not the one-step equation
            retries0 = _STATE.get('retries', 0)
            tol_here = 0.
        else:
            tol_here = tol
        stepres = lambda U, p=prev, **kw: theta * resfun(U) + (1 - theta) * resfun(p) + (U - p) / dt
        w = numpy.full(n, numpy.nan)
        if op['cons'] == 'bool':
            w[cmask] = prev[cmask]
        elif op['cons'] == 'float':
            w[cmask] = cvals[cmask]
        bad = _certify(u, w, stepres, tol_here, f'thetamethod step {istep}', dt=dt, u0=prev)
        if bad:
            return bad, 'return'
        prev = u
        if istep >= 3:
            break
    return None, 'return'


def _legacy_residual(spec):
    from nutils import function
    n = spec['n']
    A = make_matrix(dict(spec['mat'], cplx=False))
    r = numpy.random.RandomState(spec['sseed'])
    b = r.randn(n)
    c = spec['coef']
    u = function.Argument('u', (n,))
    kind = spec['kind']
    S = (A + A.T) / 2 if (spec['functional'] and kind in ('linear', 'cubic', 'sqrt')) else A
    vec = function.Array.cast(S) @ u - function.Array.cast(b)
    if kind == 'cubic':
        vec = vec + c * u**3
    elif kind == 'mixed3':
        Mx = r.randn(n, n)
        vec = vec + c * (function.Array.cast(Mx) @ u**3)
    elif kind == 'sqrt':
        vec = vec + (c * .5 / numpy.sqrt(u + 2.) if spec['functional'] else c * numpy.sqrt(u + 2.))
    return vec


def _do_step(system, resfun, spec, op, constrain, cmask, cvals, state):
    n = spec['n']
    u0 = state['u'].copy()
    t0 = state['t']
    args = {'u': u0.copy()}
    kw = dict(arguments=args, suffix='0', constrain=constrain, tol=op['tol'], maxiter=op['maxiter'], maxretry=op['maxretry'], timestep=op['timestep'])
    if op['use_t']:
        kw['timearg'] = 't'
        args['t'] = t0
    else:
        args['t'] = t0
    if op['use_dt']:
        kw['timesteparg'] = 'dt'
    else:
        args['dt'] = op['timestep']
    m = _method(dict(method=op['method']), system, spec)
    if m is not None:
        kw['method'] = m
    out = system.step(**kw)
    u = numpy.asarray(out['u'], dtype=float)
    want = _expected_constrained(op, cmask, cvals, u0, n)
    t1 = float(out['t'])
    dt = float(out['dt'])
    if op['use_t'] and not abs(t1 - (t0 + op['timestep'])) <= 1e-12 * (1 + abs(t1)):
        return ('R-time-not-advanced', f'step returned t={t1}, expected {t0 + op["timestep"]}'), 'return'
    uprev = numpy.asarray(out['u0'], dtype=float)
    bad = _certify(u, want, resfun, op['tol'], 'step', t=t1, dt=dt, u0=uprev)
    if bad:
        return bad, 'return'
    state['u'] = u
    state['t'] = t1
    return None, 'return'


def _do_constraints(system, spec, op, constrain, cmask, cvals):
    n = spec['n']
    if not system.is_symmetric:
        pass
    out = system.solve_constraints(droptol=op['droptol'], constrain=constrain, **({'arguments': {'kappa': numpy.array(0.)}} if spec['kind'] == 'linparam' else {}))
    u = numpy.asarray(out['u'], dtype=float)
    A = make_matrix(dict(spec['mat'], cplx=False))
    if spec['functional'] and spec['kind'] in ('linear', 'cubic', 'sqrt'):
        A = (A + A.T) / 2
    fixed = numpy.zeros(n, dtype=bool)
    want = numpy.full(n, numpy.nan)
    if op['cons'] == 'bool':
        fixed = cmask
        want[cmask] = 0.
    elif op['cons'] == 'float':
        fixed = cmask
        want[cmask] = cvals[cmask]
    free = ~fixed
    sub = A[numpy.ix_(free, free)]
    determined = (abs(sub) > op['droptol']).any(axis=0)
    idx = numpy.flatnonzero(free)
    must_nan = numpy.zeros(n, dtype=bool)
    must_nan[idx[~determined]] = True
    got_nan = numpy.isnan(u)
    if (u[fixed] != want[fixed]).any():
        return ('R-constraint-violated', f'solve_constraints changed prescribed entries: {u[fixed][:4].tolist()} vs {want[fixed][:4].tolist()}'), 'return'
    if (got_nan != must_nan).any():
        return ('R-droptol-pattern', f'solve_constraints left NaN at {numpy.flatnonzero(got_nan).tolist()} but the entries without influence above droptol={op["droptol"]} are {numpy.flatnonzero(must_nan).tolist()}'), 'return'
    if numpy.isinf(u).any():
        return ('R-non-finite', f'solve_constraints returned infinite values'), 'return'
    return None, 'return'


def run_project(case, B):
    '''Topology.project (least squares), also chained the way constraints are usually built (the vector returned by one projection passed as
    `constrain=` to the next, `exact_boundaries`): prescribed entries are kept bit for bit, the entries determined by a call solve the free normal
    equations  A_ff u_f = b_f - A_fc u_c  of that call, and NaN stays exactly where there is neither a prescribed value nor support.'''
    from nutils import matrix, mesh, function
    spec = case['spec']
    log = []
    with matrix.backend(B):
        if spec['mesh'] == 'line':
            topo, geom = mesh.rectilinear([spec['nelems']])
            x = geom[0]
        else:
            topo, geom = mesh.rectilinear([spec['nelems'], 2])
            x = geom[0]
        basis = topo.basis(spec['btype'], degree=spec['degree'])
        n = len(basis)
        J = function.J(geom)
        prev_cons = None
        eps = numpy.finfo(float).eps
        for oi, op in enumerate(case['ops']):
            dom = topo if op['where'] == 'domain' else topo.boundary if op['where'] == 'boundary' else topo.boundary[op['where']]
            fun = {'x': x, 'x2': x * x + 1., 'one': function.Array.cast(1.) + 0 * x, 'zero': 0 * x, 'two': function.Array.cast(2.) + 0 * x}[op['fun']]
            deg = 2 * spec['degree'] + 2
            fired0 = dict(PLAN.fired)
            reached0 = PLAN.reached
            kw = dict(solver=op['solver'])
            if op['atol']:
                kw['atol'] = op['atol']
            chained = bool(op.get('chain')) and prev_cons is not None
            if chained:
                kw['constrain'] = prev_cons
            exact = bool(op.get('exact_boundaries')) and op['where'] == 'domain'
            if exact:
                kw['exact_boundaries'] = True
            prev = numpy.array(prev_cons, dtype=float) if chained else numpy.full(n, numpy.nan)
            try:
                cons = dom.project(fun, onto=basis, geometry=geom, degree=deg, ptype='lsqr', **kw)
                outcome = 'return'
            except Exception as e:
                outcome = 'raise:' + type(e).__name__
                log.append(('project', op['where'], op['fun'], chained, exact, outcome, PLAN.reached - reached0))
                if not _is_ok_exc(e):
                    return 'E-unexpected-exception:' + type(e).__name__, f'op {oi}: Topology.project raised {type(e).__name__}: {str(e)[:200]}', log
                continue
            log.append(('project', op['where'], op['fun'], chained, exact, outcome, PLAN.reached - reached0))
            u = numpy.asarray(cons, dtype=float)
            faulted = PLAN.fired != fired0
            if chained and not numpy.array_equal(numpy.asarray(prev_cons, dtype=float), prev, equal_nan=True):
                return 'R-constraint-violated', f'op {oi}: project modified the constraint vector it was given', log
            if numpy.isinf(u).any():
                return 'R-non-finite', f'op {oi}: project returned infinite entries', log
            keep = ~numpy.isnan(prev)
            if not numpy.array_equal(u[keep], prev[keep]):
                return 'R-constraint-violated', f'op {oi}: prescribed entries {numpy.flatnonzero(keep).tolist()} were {prev[keep].tolist()} and came back as {u[keep].tolist()}', log
            # the stages of this call: (boundary first if exact_boundaries,) then the domain itself; each certified with independent dense normal equations
            for sdom, sname in ([(dom.boundary, 'boundary stage')] if exact else []) + [(dom, 'projection')]:
                A, b = sdom.integrate([basis[:, numpy.newaxis] * basis * J, basis * fun * J], degree=deg)
                A = numpy.asarray(A.export('dense') if hasattr(A, 'export') else A)
                N = (abs(A) > 1e-12).any(axis=1)
                newly = numpy.isnan(prev) & N
                if numpy.isnan(u[newly]).any():
                    return 'R-droptol-pattern', f'op {oi} ({sname}): entries {numpy.flatnonzero(newly & numpy.isnan(u)).tolist()} have support and no prescribed value but were left NaN', log
                known = ~numpy.isnan(prev) | newly
                v = numpy.where(known, u, 0.)
                r = (b - A @ v)[newly]
                res = float(numpy.linalg.norm(r))
                scale = float(numpy.linalg.norm(A, 2)) * float(numpy.linalg.norm(v)) + float(numpy.linalg.norm(b))
                if op['atol'] and not res <= op['atol'] * (1 + 1e-9) + 64 * eps * scale * n:
                    return 'R-tolerance-not-met', f'op {oi} ({sname}): returned with residual {res:.3e} of the free normal equations > atol {op["atol"]}', log
                if not op['atol'] and not faulted and not res <= 1e-8 * scale + 1e-300:
                    return 'R-machine-precision', f'op {oi} ({sname}, fun={op["fun"]}, chained={chained}): honest back end, residual of the free normal equations {res:.3e} (scale {scale:.3e})', log
                prev = numpy.where(newly, u, prev)
            if (numpy.isnan(u) != numpy.isnan(prev)).any():
                return 'R-droptol-pattern', f'op {oi}: project left NaN at {numpy.flatnonzero(numpy.isnan(u)).tolist()} but entries without prescribed value and without support are {numpy.flatnonzero(numpy.isnan(prev)).tolist()}', log
            prev_cons = cons
    return None, None, log


def worker_init():
    import nutils.solver, nutils.matrix, nutils.function
    _pywarnings.simplefilter('ignore')


class _RetryLog:
    '''treelog sink that only counts the time-step bisections announced by System.step'''

    def pushcontext(self, title):
        pass

    def popcontext(self):
        pass

    def recontext(self, title):
        pass

    def write(self, msg, level):
        if 'retrying with timestep' in str(msg):
            _STATE['retries'] = _STATE.get('retries', 0) + 1


def run_case(case):
    import treelog
    global PLAN
    _pywarnings.simplefilter('ignore')
    numpy.seterr(all='ignore')
    PLAN = Plan(case.get('faults'))
    _STATE.clear()
    B = _make_backend()
    with treelog.set(_RetryLog()):
        if case['kind'] == 'matrix':
            vclass, detail, log = run_matrix(case, B)
        elif case['kind'] == 'project':
            vclass, detail, log = run_project(case, B)
        elif case['kind'] == 'csystem':
            vclass, detail, log = run_csystem(case, B)
        else:
            vclass, detail, log = run_system(case, B)
    sig = core.sha([case['kind'], [(l[0], l[1], l[2]) for l in log], sorted(PLAN.fired), [tuple(sorted((k, str(v)) for k, v in op.items() if k not in ('vseed', 'cmask', 'rmask'))) for op in case['ops']], case['spec'].get('cond') or case['spec'].get('kind'), case['spec']['n']])
    res = dict(verdict='pass' if not vclass else 'violation', vclass=vclass, detail=detail, digest=sig, sig=sig, steps=len(log), fired=dict(PLAN.fired),
               family=case['kind'] + ':' + str(case['spec'].get('kind', case['spec'].get('cond'))), nontrivial=PLAN.reached > 0,
               probes=_probes(log))
    if vclass:
        res['trace'] = [str(l) for l in log]
    elif case.get('_index', 1) % 499 == 0:
        res['sample'] = dict(kind=case['kind'], spec=case['spec'], ops=[{k: v for k, v in op.items() if k not in ('cmask', 'rmask', 'vseed')} for op in case['ops']], faults=case['faults'], outcomes=[l[2] for l in log], fired=dict(PLAN.fired))
    return res


def _probes(log):
    p = {}
    for l in log:
        k = f'{l[0]}:{l[1]}' if l[0] != 'solve' or len(l) < 4 or l[1] in ('return', 'raise') else f'solve:{l[1]}'
        out = l[2] if isinstance(l[2], str) else ''
        key = ('matrix_solve_' + l[1]) if l[1] in ('return', 'raise') else f'{l[0]}_{l[1]}_{out.split(":")[0]}'
        p[key] = p.get(key, 0) + 1
        if isinstance(out, str) and out.startswith('raise:'):
            p['raised_' + out[6:]] = p.get('raised_' + out[6:], 0) + 1
        if l[1] == 'raise':
            p['raised_' + str(l[2])] = p.get('raised_' + str(l[2]), 0) + 1
    return p


# ---------------------------------------------------------------------- shrinking

def shrink_candidates(case):
    c = case
    if c['faults']:
        yield shrink.with_key(c, 'faults', {})
        if len(c['faults']) > 1:
            for k in list(c['faults']):
                yield shrink.with_key(c, 'faults', {a: b for a, b in c['faults'].items() if a != k})
    if len(c['ops']) > 1:
        for ops in shrink.list_reductions(c['ops']):
            if ops:
                yield shrink.with_key(c, 'ops', ops)
    n = c['spec']['n']
    if n > 1:
        for v in shrink.int_reductions(n, 1):
            cc = copy.deepcopy(c)
            cc['spec']['n'] = v
            if 'mat' in cc['spec']:
                cc['spec']['mat']['n'] = v
            for op in cc['ops']:
                if 'cmask' in op:
                    op['cmask'] = op['cmask'][:v]
                if op.get('rmask') is not None:
                    op['rmask'] = op['rmask'][:v]
            yield cc
    for i, op in enumerate(c['ops']):
        for key, simple in (('nrhs', 0), ('lhs0', False), ('symmetric', False), ('truncate', None), ('precon', 'direct'), ('lenient', False), ('guess', 'none'), ('miniter', 0), ('rcons', False)):
            if key in op and op[key] != simple:
                cc = shrink.with_key(c, ['ops', i, key], simple)
                if key == 'rcons':
                    cc['ops'][i]['rmask'] = None
                yield cc
        if any(op.get('cmask', ())):
            yield shrink.with_key(c, ['ops', i, 'cmask'], [False] * len(op['cmask']))
        if c['kind'] == 'project':
            for key, simple in (('exact_boundaries', False), ('atol', 0.), ('solver', 'direct')):
                if op.get(key) != simple:
                    yield shrink.with_key(c, ['ops', i, key], simple)
    if c['kind'] == 'project':
        for key, simple in (('mesh', 'line'), ('btype', 'std'), ('degree', 1)):
            if c['spec'][key] != simple:
                yield shrink.with_key(c, ['spec', key], simple)
        for v in shrink.int_reductions(c['spec']['nelems'], 1):
            yield shrink.with_key(c, ['spec', 'nelems'], v)
        return
    spec = c['spec'].get('mat', c['spec'])
    if spec.get('cond') not in ('id', 'well'):
        cc = copy.deepcopy(c)
        (cc['spec'].get('mat') or cc['spec'])['cond'] = 'well'
        yield cc
    if spec.get('cplx'):
        cc = copy.deepcopy(c)
        (cc['spec'].get('mat') or cc['spec'])['cplx'] = False
        yield cc
