'''Run one case in a forked child of the current (pristine) interpreter.

The caller never executes cases itself, so every case starts from the same
process state whatever ran before it; that is what makes replay in a fresh
interpreter equivalent to the original run.'''

import os, sys, json, select, signal, time, traceback, resource


def run_isolated(fn, case, timeout=60.0, mem_gb=6):
    r, w = os.pipe()
    sys.stdout.flush()
    sys.stderr.flush()
    pid = os.fork()
    if pid == 0:
        code = 0
        try:
            os.close(r)
            os.setpgid(0, 0)
            devnull = os.open(os.devnull, os.O_RDWR)
            os.dup2(devnull, 0)
            os.dup2(devnull, 1)
            if not os.environ.get('VSIM_DEBUG'):
                os.dup2(devnull, 2)
            try:
                lim = mem_gb << 30
                resource.setrlimit(resource.RLIMIT_AS, (lim, lim))
            except Exception:
                pass
            try:
                res = fn(case)
            except BaseException as e:
                res = dict(verdict='harness', vclass='exception-in-harness', detail=''.join(traceback.format_exception(type(e), e, e.__traceback__))[-3000:])
            data = json.dumps(res).encode()
            while data:
                n = os.write(w, data)
                data = data[n:]
        except BaseException:
            code = 9
        finally:
            os._exit(code)
    os.close(w)
    chunks = []
    deadline = time.monotonic() + timeout
    timed_out = False
    while True:
        left = deadline - time.monotonic()
        if left <= 0:
            timed_out = True
            break
        ready, _, _ = select.select([r], [], [], min(left, 1.0))
        if ready:
            b = os.read(r, 1 << 16)
            if not b:
                break
            chunks.append(b)
    os.close(r)
    try:
        os.killpg(pid, signal.SIGKILL)  # the case root and whatever it forked
    except (ProcessLookupError, PermissionError):
        pass
    try:
        _, status = os.waitpid(pid, 0)
    except ChildProcessError:
        status = -1
    if timed_out:
        return dict(verdict='harness', vclass='wall-timeout', detail=f'case did not finish within {timeout}s wall')
    try:
        return json.loads(b''.join(chunks).decode())
    except Exception:
        return dict(verdict='harness', vclass='no-result', detail=f'case process ended with status {status} and no result')
