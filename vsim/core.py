'''Common pieces: bootstrap of the nutils import, seeds, canonical JSON, verdicts.'''

import os, sys, json, hashlib, random

VERIF = os.path.dirname(os.path.dirname(os.path.abspath(__file__)))
SRC = os.environ.get('VSIM_NUTILS_SRC', '/repo/src')


def bootstrap():
    '''Make `import nutils` resolve to the working tree under test and prove it did.'''
    src = os.path.realpath(SRC)
    if sys.path[0] != src:
        sys.path.insert(0, src)
    import nutils
    got = os.path.realpath(os.path.dirname(os.path.dirname(nutils.__file__)))
    if got != src:
        raise HarnessError(f'nutils imported from {got}, expected {src}')
    return nutils


class HarnessError(Exception):
    '''A malfunction of the verification machinery itself: exit code 2, never a VIOLATION.'''


def seed_for(batch_seed, prop, index):
    h = hashlib.sha256(f'{int(batch_seed)}/{prop}/{int(index)}'.encode()).digest()
    return int.from_bytes(h[:8], 'big')


def rng_for(batch_seed, prop, index):
    return random.Random(seed_for(batch_seed, prop, index))


def canon(obj):
    return json.dumps(obj, sort_keys=True, separators=(',', ':'))


def sha(obj):
    if not isinstance(obj, (bytes, bytearray)):
        obj = canon(obj).encode()
    return hashlib.sha1(obj).hexdigest()


def batch_seed():
    try:
        return int(os.environ.get('VERIF_SEED', '0'))
    except ValueError:
        return 0


# result['verdict'] values
PASS = 'pass'
VIOLATION = 'violation'
DISCARD = 'discard'     # case could not be set up (counted, never hidden)
HARNESS = 'harness'     # harness malfunction inside a case
