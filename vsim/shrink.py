'''Delta debugging over case records (own shrinker; no Hypothesis involved).'''

import time, copy
from . import isolate


def list_reductions(lst, zero=None):
    '''Candidate smaller versions of a list: drop halves, quarters, ..., single items; then zero single items.'''
    n = len(lst)
    if n == 0:
        return
    yield []
    chunk = n // 2
    while chunk >= 1:
        for start in range(0, n, chunk):
            cand = lst[:start] + lst[start + chunk:]
            if len(cand) < n:
                yield cand
        chunk //= 2
    if zero is not None:
        # truncate trailing part first, then zero entries
        for cut in (n // 2, n - 1):
            if 0 < cut < n:
                yield lst[:cut]
        nz = [i for i, v in enumerate(lst) if v != zero]
        if len(nz) > 1:
            yield [zero] * n
        for i in nz[:64]:
            yield lst[:i] + [zero] + lst[i + 1:]


def int_reductions(v, lo=0):
    if v > lo:
        yield lo
        if (v + lo) // 2 not in (v, lo):
            yield (v + lo) // 2
        if v - 1 > lo:
            yield v - 1


def with_key(case, key, value):
    c = copy.deepcopy(case)
    cur = c
    *path, last = key if isinstance(key, (list, tuple)) else [key]
    for k in path:
        cur = cur[k]
    cur[last] = value
    return c


def minimise(mod, case, vclass, known=None, budget_s=90, max_runs=400):
    t0 = time.monotonic()
    runs = 0
    timeout = getattr(mod, 'CASE_TIMEOUT', 60.0)

    def fails(c):
        nonlocal runs
        runs += 1
        res = isolate.run_isolated(mod.run_case, c, timeout=timeout)
        return res.get('verdict') == 'violation' and res.get('vclass') == vclass
    if not hasattr(mod, 'shrink_candidates'):
        return case, 0
    cur = case
    improved = True
    while improved and time.monotonic() - t0 < budget_s and runs < max_runs:
        improved = False
        try:
            for cand in mod.shrink_candidates(cur):
                if time.monotonic() - t0 > budget_s or runs >= max_runs:
                    break
                cand['_index'] = case.get('_index')
                cand['_seed'] = case.get('_seed')
                if fails(cand):
                    cur = cand
                    improved = True
                    break
        except Exception:
            # a defect in a candidate generator must never lose the violation: report what has been reached so far
            import traceback, sys
            traceback.print_exc(file=sys.stderr)
            break
    return cur, runs
