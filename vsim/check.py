'''`vsim check <ID>`: run a batch, decide, shrink, write replay files and evidence.'''

import os, sys, json, time, subprocess, collections
from . import core, batch, isolate, shrink as shrinkmod

KNOWN_FILE = os.path.join(core.VERIF, 'known_findings.json')
REPLAYS = os.environ.get('VSIM_REPLAY_DIR') or os.path.join(core.VERIF, 'replays')
EVIDENCE = os.environ.get('VSIM_EVIDENCE_DIR') or os.path.join(core.VERIF, 'evidence')


def load_known():
    try:
        return json.load(open(KNOWN_FILE))
    except FileNotFoundError:
        return dict(findings=[], fixed=[])


def known_match(mod, res, known):
    '''Returns the matching known-finding entry (dict) or None.  Matching is on the
    specific failing condition encoded in the entry (`match`), never on the property alone.'''
    for f in known.get('findings', []):
        if f.get('property') != mod.ID:
            continue
        m = f.get('match', {})
        if all(res.get(k) == v for k, v in m.items()) and m:
            return f
    return None


def replay_file(path, quiet=False):
    rec = json.load(open(path))
    mod = batch.load(rec['property'])
    core.bootstrap()
    if hasattr(mod, 'worker_init'):
        mod.worker_init()
    import gc
    gc.collect()
    gc.freeze()   # children forked per case must not traverse (and copy-on-write) the whole inherited heap in their collections
    res = isolate.run_isolated(mod.run_case, rec['case'], timeout=getattr(mod, 'CASE_TIMEOUT', 60.0) * 2)
    exp = rec.get('expect', {})
    same = res.get('verdict') == 'violation' and res.get('vclass') == exp.get('vclass')
    same_digest = exp.get('digest') is None or res.get('digest') == exp.get('digest')
    if not quiet:
        print(f'replay {path}: verdict={res.get("verdict")} class={res.get("vclass")} digest={res.get("digest")}')
        print(f'  detail: {res.get("detail")}')
        for line in res.get('trace', [])[:200]:
            print('  ', line)
    if res.get('verdict') == 'harness':
        print(f'HARNESS-ERROR replay {path}: {res.get("vclass")}: {res.get("detail")}')
        return 2
    if same:
        known = load_known()
        if known_match(mod, res, known):
            print(f'KNOWN-FINDING: property={rec["property"]} {res.get("vclass")} (replay {path})')
            return 0
        print(f'VIOLATION property={rec["property"]} replay={path}' + ('' if same_digest else ' (same class, different event digest)'))
        return 1
    print(f'NOT-REPRODUCED property={rec["property"]} replay={path} (expected class {exp.get("vclass")})')
    return 0


def _fresh_replay(path):
    env = dict(os.environ, PYTHONHASHSEED='7')
    p = subprocess.run([batch.PY, batch.VSIM, 'replay', path, '--quiet'], capture_output=True, env=env, timeout=600)
    return p.returncode, p.stdout.decode()


def check(prop, tier):
    t_start = time.time()
    B = batch.run_batch(prop, tier)
    mod = B['mod']
    # the master itself only executes cases (shrinking, regression replays) in forked children, from the tree under test
    core.bootstrap()
    if hasattr(mod, 'worker_init'):
        mod.worker_init()
    import gc
    gc.collect()
    gc.freeze()
    results = B['results']
    known = load_known()
    exit_code = 0
    lines = []
    harness = [r for r in results if r.get('verdict') == 'harness']
    ndup, detbad = batch.determinism_diff(results, B['dup'])
    if B['errs']:
        for e in B['errs'][:5]:
            lines.append(f'HARNESS-ERROR property={prop} worker: {e}')
        exit_code = 2
    if harness:
        byc = collections.Counter(r.get('vclass') for r in harness)
        for r in harness[:3]:
            lines.append(f'HARNESS-ERROR property={prop} case={r.get("_index")} {r.get("vclass")}: {str(r.get("detail"))[-800:]}')
        lines.append(f'HARNESS-ERROR property={prop} {dict(byc)}')
        exit_code = 2
    if detbad:
        for b in detbad[:5]:
            lines.append(f'HARNESS-ERROR property={prop} nondeterministic: {b}')
        exit_code = 2
    if not results:
        lines.append(f'HARNESS-ERROR property={prop} no cases were executed')
        exit_code = 2

    # regression cases: shrunk replays of defects that were repaired (known_findings.json -> fixed); none may reproduce
    import glob
    regress = sorted(glob.glob(os.path.join(core.VERIF, 'regressions', f'{prop}-*.json')))
    nregress = 0
    for path in regress:
        rec = json.load(open(path))
        res = isolate.run_isolated(mod.run_case, rec['case'], timeout=getattr(mod, 'CASE_TIMEOUT', 60.0) * 2)
        nregress += 1
        if res.get('verdict') == 'harness':
            lines.append(f'HARNESS-ERROR property={prop} regression {path}: {res.get("vclass")}: {str(res.get("detail"))[-300:]}')
            exit_code = 2
        elif res.get('verdict') == 'violation' and not known_match(mod, res, known):
            lines.append(f'VIOLATION property={prop} replay={path}')
            lines.append(f'  class={res.get("vclass")} a repaired defect is back ({rec.get("regression_for", {}).get("fix_commit")}): {str(res.get("detail"))[:400]}')
            exit_code = exit_code or 1
    B['nregress'] = nregress

    viol = [r for r in results if r.get('verdict') == 'violation']
    known_hits = collections.Counter()
    new_viol = []
    for r in viol:
        f = known_match(mod, r, known)
        if f:
            known_hits[f['id']] += 1
        else:
            new_viol.append(r)
    for f in known.get('findings', []):
        if f.get('property') == prop:
            lines.append(f'KNOWN-FINDING: property={prop} {f["what"]} [{f["id"]}; matched {known_hits.get(f["id"], 0)} cases this run]')

    # shrink and report new violations, a few per class
    byclass = collections.OrderedDict()
    for r in sorted(new_viol, key=lambda r: r['_index']):
        byclass.setdefault(r.get('vclass'), []).append(r)
    replay_paths = []
    os.makedirs(REPLAYS, exist_ok=True)
    maxper = int(os.environ.get('VSIM_REPLAYS_PER_CLASS', '1'))
    for vclass, rs in byclass.items():
      for r in rs[:maxper]:
        case = r['_case']
        small, nruns = shrinkmod.minimise(mod, case, vclass, known, budget_s=(90 if tier == 'quick' else 240) / maxper)
        res2 = isolate.run_isolated(mod.run_case, small, timeout=getattr(mod, 'CASE_TIMEOUT', 60.0))
        if not (res2.get('verdict') == 'violation' and res2.get('vclass') == vclass):
            small, res2 = case, r
        path = os.path.join(REPLAYS, f'{prop}-{case["_seed"]:016x}.json')
        rec = dict(property=prop, seed=case['_seed'], batch_seed=B['bseed'], index=case['_index'], case=small,
                   expect=dict(vclass=vclass, digest=res2.get('digest')), detail=res2.get('detail'), trace=res2.get('trace', [])[:300],
                   original_case=case if small is not case else None, shrink_runs=nruns, violations_of_this_class_in_batch=len(rs))
        json.dump(rec, open(path, 'w'), indent=1)
        rc, out = _fresh_replay(path)
        rec['fresh_replay_exit'] = rc
        json.dump(rec, open(path, 'w'), indent=1)
        replay_paths.append(path)
        lines.append(f'VIOLATION property={prop} replay={path}')
        lines.append(f'  class={vclass} cases={len(rs)} detail={str(res2.get("detail"))[:500]} fresh_replay_exit={rc}')
        exit_code = exit_code or 1
    if new_viol and exit_code != 2:
        exit_code = 1
    if exit_code == 2 and any(json.load(open(pth)).get('fresh_replay_exit') == 1 for pth in replay_paths):
        # a violation that reproduces from its replay file in a fresh interpreter stands on its own feet: it is reported as such (exit 1) even if
        # the batch ALSO showed harness trouble (printed above) - e.g. a change that keeps state across the cases of one worker process also trips
        # the determinism self-check
        exit_code = 1

    ev = write_evidence(mod, B, tier, ndup, detbad, len(new_viol), known_hits, t_start)
    for l in lines:
        print(l)
    nv = len(new_viol)
    print(f'{prop} {tier}: cases={len(results)} pass={sum(r.get("verdict") == "pass" for r in results)} discard={sum(r.get("verdict") == "discard" for r in results)} '
          f'violations={nv} known={sum(known_hits.values())} harness={len(harness)} determinism_checked={ndup} mismatches={len(detbad)} '
          f'distinct={ev["coverage"]["distinct_nontrivial"]} wall={time.time() - t_start:.1f}s exit={exit_code}')
    return exit_code


def write_evidence(mod, B, tier, ndup, detbad, nviol, known_hits, t_start):
    results = B['results']
    fired = collections.Counter()
    probes = collections.Counter()
    families = collections.Counter()
    verdicts = collections.Counter()
    sigs = set()
    steps = 0
    samples = []
    for r in results:
        verdicts[r.get('verdict')] += 1
        for k, v in (r.get('fired') or {}).items():
            fired[k] += v
        for k, v in (r.get('probes') or {}).items():
            probes[k] += v
        if r.get('family'):
            families[r['family']] += 1
        steps += r.get('steps', 0)
        if r.get('nontrivial') and r.get('sig'):
            sigs.add(r['sig'])
        if r.get('sample') and len(samples) < 6:
            samples.append(r['sample'])
    wall = time.time() - t_start
    cov = dict(
        evaluations=len(results),
        distinct_nontrivial=len(sigs),
        rule=mod.RULE,
        samples=samples or [dict(note='no sample recorded')],
        exhaustive=False,
        simulated_runs=len(results),
        runs_per_hour=int(len(results) / max(B['wall_s'], 1e-9) * 3600),
        simulated_time_scheduler_steps=steps,
        fault_kinds_fired=dict(fired),
        reach_probes=dict(probes),
        workload_families=dict(families),
        verdicts=dict(verdicts),
        determinism_selfcheck=dict(cases_rerun_in_other_interpreter_and_hashseed=ndup, mismatches=len(detbad)),
        known_finding_hits=dict(known_hits),
        regression_replays_of_repaired_defects=B.get('nregress', 0),
        cases_requested=B['count'],
        workers=B['nworkers'],
        stopped_early_by_wall_cap=bool(B['stopped']),
        real_vs_stub=mod.REAL_VS_STUB,
        explanation='sampled, not exhaustive: a clean batch is evidence, not proof',
    )
    if hasattr(mod, 'evidence_extra'):
        cov.update(mod.evidence_extra(results))
    ev = dict(property_id=mod.ID, tier=tier, seed=B['bseed'], level=mod.LEVEL, coverage=cov,
              assumptions=mod.ASSUMPTIONS, wall_s=round(wall, 2), violations=nviol)
    os.makedirs(EVIDENCE, exist_ok=True)
    json.dump(ev, open(os.path.join(EVIDENCE, f'{mod.ID}.json'), 'w'), indent=1)
    return ev
