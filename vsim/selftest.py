'''`vsim selftest [ID ...] --n N`: determinism proof on a large sample.

Runs cases 0..N-1 of each property three times: (a) W workers, PYTHONHASHSEED=0; (b) other worker count, other hash seed,
(c) one more hash seed with reversed index order (different chunk neighbours, different process histories) - all in fresh
interpreters - and diffs case record hash, verdict, violation class and event/log digest.'''

import os, sys, json, subprocess, time, shutil
from . import core, batch


def _run(prop, n, nworkers, hashseed, reverse, tag):
    scratch = f'/dev/shm/vsim-selftest-{os.getpid()}-{tag}'
    os.makedirs(scratch, exist_ok=True)
    procs = []
    for w in range(nworkers):
        idx = list(range(w, n, nworkers))
        if reverse:
            idx = idx[::-1]
        if not idx:
            continue
        env = dict(os.environ, PYTHONHASHSEED=str(hashseed), VERIF_SEED=str(core.batch_seed()), OMP_NUM_THREADS='1', OPENBLAS_NUM_THREADS='1', VSIM_SCRATCH=scratch)
        out = open(os.path.join(scratch, f'w{w}.out'), 'wb')
        procs.append((subprocess.Popen([batch.PY, batch.VSIM, 'worker', prop, '--tier', 'quick', '--count', str(n), '--wall', '3600', '--indices', ','.join(map(str, idx))],
                                       stdout=out, stderr=subprocess.DEVNULL, env=env, cwd=core.VERIF), out.name))
    res = {}
    for p, name in procs:
        p.wait()
        for line in open(name, 'rb').read().decode().splitlines():
            if line.strip():
                r = json.loads(line)
                if '_index' in r:
                    res[r['_index']] = (r.get('_case_sha'), r.get('verdict'), r.get('vclass'), r.get('digest'))
    shutil.rmtree(scratch, ignore_errors=True)
    return res


def main(props, n):
    props = props or sorted(batch.PROPS)
    bad = 0
    for prop in props:
        t0 = time.time()
        a = _run(prop, n, 10, 0, False, 'a')
        b = _run(prop, n, 7, 424242, False, 'b')
        c = _run(prop, n, 4, 7, True, 'c')
        diffs = [i for i in range(n) if not (a.get(i) == b.get(i) == c.get(i)) or a.get(i) is None]
        harness = [i for i in range(n) if a.get(i) and a[i][1] == 'harness']
        print(json.dumps(dict(property=prop, cases=n, runs_each=3, configurations=['10 workers hashseed 0', '7 workers hashseed 424242', '4 workers hashseed 7 reversed order'],
                              mismatches=len(diffs), first=[(i, a.get(i), b.get(i), c.get(i)) for i in diffs[:3]], harness_results=len(harness), wall_s=round(time.time() - t0, 1))))
        sys.stdout.flush()
        bad += len(diffs) + len(harness)
    return 2 if bad else 0
