'''Simulated file layer for nutils.cache (C18).

Files are real files on tmpfs, opened unbuffered; every operation is a yield
point of procsim and a fault point (torn write + death, ENOSPC, EIO).  flock is
implemented in the scheduler's lock table, released on close and on death.
Works without an active simulation too (plain pass-through), which is what the
in-process verification epochs use.
'''

import os, io, errno, pathlib as _real_pathlib, fcntl as _real_fcntl, hashlib, time as _real_time
from . import procsim
from .procsim import K

# per-process fault state (inherited over fork, then private)
STATE = dict(wcount=0, rcount=0, plan=None, wlog=None)


def set_plan(plan):
    '''plan: None or dict(kind='CRASH_W'|'ENOSPC'|'EIO', b=<byte offset or read ordinal>)'''
    STATE['plan'] = dict(plan) if plan else None
    STATE['wcount'] = 0
    STATE['wcalls'] = 0
    STATE['rcount'] = 0


def record_writes(lst):
    '''Record (path name, offset, bytes) of every write in this process into `lst` (None to stop).'''
    STATE['wlog'] = lst


def _key(path):
    # identify an entry by its position inside the cache directory, not by the (per-run) scratch location
    parts = _real_pathlib.PurePosixPath(str(path)).parts
    rel = '/'.join(parts[-2:]) if len(parts) >= 2 and len(parts[-2]) == 40 else parts[-1]
    return int.from_bytes(hashlib.sha1(rel.encode()).digest()[:7], 'big')


def _sim():
    sim = procsim.current()
    if sim is not None and sim.active and not sim.postmortem:
        return sim
    return None


def _y(kind, obj=0, a=0, b=0):
    sim = _sim()
    if sim is not None:
        sim.yield_point(kind, obj, a, b)


class SimFile:

    def __init__(self, path, mode):
        assert 'b' in mode
        self._path = path
        self._id = _key(path) & 0x3fffffff
        self._raw = io.FileIO(os.fspath(path), mode.replace('b', ''))
        self._flock = None
        self.closed = False
        _y(K['FOPEN'], self._id)

    # --- reading
    def _read_fault(self):
        plan = STATE['plan']
        STATE['rcount'] += 1
        if plan and plan['kind'] == 'EIO' and not plan.get('fired') and STATE['rcount'] == plan['b']:
            plan['fired'] = True
            sim = _sim()
            if sim is not None:
                sim.log(K['F_IO'], self._id, 1)
                sim.probe(3)
            raise OSError(errno.EIO, 'injected: Input/output error')

    def read(self, n=-1):
        _y(K['FREAD'], self._id, n if n is not None and n < 1 << 30 else -1)
        self._read_fault()
        if n is None or n < 0:
            return self._raw.readall()
        return self._raw.read(n)

    def readinto(self, b):
        _y(K['FREAD'], self._id, len(b))
        self._read_fault()
        return self._raw.readinto(b)

    def readline(self, size=-1):
        _y(K['FREAD'], self._id, -2)
        self._read_fault()
        out = bytearray()
        while size < 0 or len(out) < size:
            c = self._raw.read(1)
            if not c:
                break
            out += c
            if c == b'\n':
                break
        return bytes(out)

    # --- writing
    def write(self, data):
        data = bytes(data)
        _y(K['FWRITE'], self._id, len(data))
        plan = STATE['plan']
        w0 = STATE['wcount']
        STATE['wcalls'] = STATE.get('wcalls', 0) + 1
        if plan and plan['kind'] in ('CRASH_W', 'ENOSPC') and not plan.get('fired'):
            cut = None
            if 'w' in plan:
                if plan['w'] == STATE['wcalls']:
                    cut = min(len(data), int(plan['u'] * (len(data) + 1)))
            elif w0 <= plan['b'] < w0 + len(data):
                cut = plan['b'] - w0
            if cut is not None:
                plan['fired'] = True
                if plan['kind'] == 'ENOSPC':
                    cut = min(cut, max(0, len(data) - 1))
                part = data[:cut]
                self._do_write(part)
                sim = _sim()
                if plan['kind'] == 'CRASH_W':
                    if sim is not None:
                        sim.log(K['F_CRASHW'], self._id, len(part), len(data))
                        sim.probe(1)
                        sim.die_now()
                    os._exit(137)
                if sim is not None:
                    sim.log(K['F_IO'], self._id, 2, len(part))
                    sim.probe(2)
                raise OSError(errno.ENOSPC, 'injected: No space left on device')
        self._do_write(data)
        return len(data)

    def _do_write(self, data):
        if STATE['wlog'] is not None:
            STATE['wlog'].append((self._path.name, self._raw.tell(), bytes(data)))
        view = memoryview(data)
        while len(view):
            n = self._raw.write(view)
            view = view[n:]
        STATE['wcount'] += len(data)

    def _crash_between_ops(self):
        plan = STATE['plan']
        if plan and plan['kind'] == 'CRASH_W' and 'w' not in plan and not plan.get('fired') and STATE['wcount'] == plan['b'] and plan['b'] > 0:
            plan['fired'] = True
            sim = _sim()
            if sim is not None:
                sim.log(K['F_CRASHW'], self._id, 0, 0)
                sim.probe(1)
                sim.die_now()
            os._exit(137)

    def seek(self, pos, whence=0):
        self._crash_between_ops()
        _y(K['FSEEK'], self._id, pos)
        return self._raw.seek(pos, whence)

    def tell(self):
        return self._raw.tell()

    def flush(self):
        pass

    def fileno(self):
        return self._raw.fileno()

    def truncate(self, size=None):
        _y(K['FWRITE'], self._id, -1)
        if STATE['wlog'] is not None:
            STATE['wlog'].append((self._path.name, 'truncate', self._raw.tell() if size is None else size))
        return self._raw.truncate(size)

    def readable(self):
        return True

    def writable(self):
        return True

    def seekable(self):
        return True

    def close(self):
        if self.closed:
            return
        self._crash_between_ops()
        self.closed = True
        sim = _sim()
        if sim is not None:
            sim.observe_writes()
            sim.log(K['FCLOSE'], self._id)
            sim._count_and_fault(K['FCLOSE'])
        self._raw.close()
        if self._flock is not None:
            l, self._flock = self._flock, None
            if sim is not None:
                sim.funlock(l)
        elif sim is not None:
            sim._switch()

    def __enter__(self):
        return self

    def __exit__(self, *exc):
        self.close()
        return False


class SimPath(_real_pathlib.PosixPath):

    def mkdir(self, mode=0o777, parents=False, exist_ok=False):
        _y(K['FMKDIR'])
        return super().mkdir(mode, parents, exist_ok)

    def touch(self, mode=0o666, exist_ok=True):
        _y(K['FTOUCH'], _key(self) & 0x3fffffff)
        return super().touch(mode, exist_ok)

    def unlink(self, missing_ok=False):
        _y(K['FTOUCH'], _key(self) & 0x3fffffff, 1)
        return super().unlink(missing_ok)

    def open(self, mode='r', *args, **kwargs):
        if 'b' not in mode:
            return super().open(mode, *args, **kwargs)
        return SimFile(self, mode)


class PathlibProxy:

    Path = SimPath

    def __getattr__(self, name):
        return getattr(_real_pathlib, name)


class FcntlStub:

    LOCK_EX = _real_fcntl.LOCK_EX
    LOCK_SH = _real_fcntl.LOCK_SH
    LOCK_UN = _real_fcntl.LOCK_UN
    LOCK_NB = _real_fcntl.LOCK_NB

    def __getattr__(self, name):
        return getattr(_real_fcntl, name)

    def flock(self, f, op):
        sim = _sim()
        if not isinstance(f, SimFile) or sim is None:
            return None  # no contention outside the simulator
        if op & self.LOCK_UN:
            if f._flock is not None:
                l, f._flock = f._flock, None
                sim.funlock(l)
            return None
        # LOCK_SH is treated as LOCK_EX by the stub only if the code under test asks for LOCK_EX;
        # a shared lock request does not exclude other shared holders
        if op & self.LOCK_SH:
            sim.yield_point(K['FLOCK'], sim.flock_id(int(os.fstat(f.fileno()).st_ino)), 1)
            return None
        # flock is tied to the open file description, i.e. to the inode: a file that was unlinked and re-created at the
        # same path is a different lock (ids are handed out in order of first use, so the event log stays deterministic)
        l = sim.flock_id(int(os.fstat(f.fileno()).st_ino))
        if op & self.LOCK_NB:
            if not sim.try_flock(l):
                raise BlockingIOError(errno.EAGAIN, 'Resource temporarily unavailable')
        else:
            sim.flock(l)
        f._flock = l
        return None


class SimClock:
    '''Stands in for the `time` module of nutils.cache IF that module has one (the pristine code reads no clock): virtual time, every sleep a yield point.'''

    def __getattr__(self, name):
        return getattr(_real_time, name)

    def _now(self):
        sim = _sim()
        return sim.clock_now() if sim is not None else _real_time.monotonic()

    def monotonic(self):
        return self._now()

    def time(self):
        return self._now()

    def perf_counter(self):
        return self._now()

    def sleep(self, seconds):
        sim = _sim()
        if sim is not None:
            sim.clock_sleep(seconds)
        else:
            _real_time.sleep(seconds)


class patched_cache:

    def __enter__(self):
        from nutils import cache
        self._saved = (cache.pathlib, cache.fcntl)
        cache.pathlib = PathlibProxy()
        cache.fcntl = FcntlStub()
        self._time = getattr(cache, 'time', None)
        if self._time is not None:
            cache.time = SimClock()
        return self

    def __exit__(self, *exc):
        from nutils import cache
        cache.pathlib, cache.fcntl = self._saved
        if self._time is not None:
            cache.time = self._time
        return False
