#!/venv/bin/python
# Generates MANIFEST.json from one place (vsim.registry) so that it is always valid.
import json, sys, os
sys.path.insert(0, os.path.dirname(os.path.abspath(__file__)))
from vsim import registry
m = registry.manifest()
json.dump(m, open(os.path.join(os.path.dirname(os.path.abspath(__file__)), 'MANIFEST.json'), 'w'), indent=1)
print('wrote MANIFEST.json with', len(m['checks']), 'checks,', len(m['not_applicable']), 'not applicable')
