#!/usr/bin/env python
'''Pristine nutils: a cache.Recursion whose resume generator keeps a log context
open across yields (the pattern of the classic nutils solvers: `with
log.context('newton'): while True: yield ...`) does not reproduce the log output
of the uncached iteration when it is resumed from a partially filled cache: the
replayed items push the context without popping it, and the resumed generator
pushes it again.

exit 0: log output identical, exit 1: different.
'''
import sys, tempfile, itertools
import treelog
from nutils import cache


class Count(cache.Recursion, length=1):
    def __init__(self, n):
        self.n = n

    def resume(self, history):
        i = history[-1] + 1 if history else 0
        with treelog.context('count'):
            while i < self.n:
                treelog.info('item {}'.format(i))
                yield i
                i += 1


class Collect:
    'minimal treelog log that records info+ messages together with their context'
    def __init__(self):
        self.context = []
        self.lines = []
    def pushcontext(self, title):
        self.context.append(title)
    def popcontext(self):
        self.context.pop()
    def recontext(self, title):
        self.context[-1] = title
    def write(self, msg, level):
        if level.value >= treelog.proto.Level.info.value:
            self.lines.append(' > '.join(self.context + [str(msg)]))


def consume(nitems):
    collect = Collect()
    with treelog.set(collect):
        values = []
        for v in itertools.islice(Count(5), nitems):
            treelog.info('consumer got {}'.format(v))
            values.append(v)
        treelog.info('done')
    return values, collect.lines


ref_values, ref_lines = consume(5)
with tempfile.TemporaryDirectory() as tmpdir, cache.enable(tmpdir):
    consume(2)  # earlier run, interrupted after two items
    values, lines = consume(5)  # resumed run

print('uncached:')
print('\n'.join('   ' + l for l in ref_lines))
print('cached, resumed after 2 items:')
print('\n'.join('   ' + l for l in lines))
ok = values == ref_values and lines == ref_lines
print('values equal:', values == ref_values, ' log equal:', lines == ref_lines)
sys.exit(0 if ok else 1)
