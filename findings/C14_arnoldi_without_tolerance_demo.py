'''Pre-existing (pristine tree): with the default tolerances atol=rtol=0 ("solve
to machine precision") Matrix.solve performs no residual check at all.  With
solver='arnoldi' and any preconditioner that does not fail on a singular matrix
(e.g. precon='diag') the Krylov loop stops on stagnation and the stagnated
iterate is returned without ToleranceNotReached / MatrixError.

exit 1 if a solve returns a vector whose residual is not small, exit 0 otherwise.
'''
import sys
import numpy
import nutils
from nutils import matrix, function, solver

print('nutils from', nutils.__file__)
bad = False

# 1. Matrix level: singular, inconsistent system
dense = numpy.array([[1., 1.], [1., 1.]])
A = matrix.assemble_coo(dense.ravel(), [0, 0, 1, 1], 2, [0, 1, 0, 1], 2)
b = numpy.array([1., 0.])
for kw in dict(solver='arnoldi', precon='diag'), dict(solver='arnoldi', precon='diag', atol=1e-8), dict():
    try:
        x = A.solve(b, **kw)
    except matrix.MatrixError as e:
        print('Matrix.solve', kw, '-> raised', type(e).__name__, '(fine)')
        continue
    r = numpy.linalg.norm(dense @ x - b)
    print('Matrix.solve', kw, '-> returned', x, 'residual', r)
    bad |= not r <= 1e-10

# 2. the same through System.solve / Direct
x = function.Argument('x', (2,))
system = solver.System([dense @ x - b], trial='x')
try:
    args = system.solve(method=solver.Direct(solver='arnoldi', precon='diag'))
    r = numpy.linalg.norm(dense @ args['x'] - b)
    print('System.solve(Direct(arnoldi, diag)) -> returned', args['x'], 'residual', r)
    bad |= not r <= 1e-10
except (matrix.MatrixError, solver.SolverError) as e:
    print('System.solve -> raised', type(e).__name__, '(fine)')

sys.exit(1 if bad else 0)
