#!/venv/bin/python
'''Stand-alone confirmation of the known finding C16-kill-while-holding-lock against the REAL code and the REAL
multiprocessing.Lock (no simulator): a worker that is SIGKILLed while it holds the iteration-counter lock of
parallel.range leaves the lock held; the parent blocks for ever inside parallel.fork and the call neither returns nor
raises.  The script puts an alarm on the parent; exit code 0 = finding reproduced (the call hung until the alarm),
1 = the call returned or raised (finding gone).'''
import sys, os, signal, time
sys.path.insert(0, os.environ.get('VSIM_NUTILS_SRC', '/repo/src'))
import treelog
from nutils import parallel


class Hung(Exception):
    pass


def on_alarm(*args):
    raise Hung


def main():
    signal.signal(signal.SIGALRM, on_alarm)
    with treelog.set(treelog.NullLog()), parallel.maxprocs(2):
        rng = parallel.range(4)
        orig_next = parallel.range.__next__

        def dying_next(self):
            # same body as parallel.range.__next__, but the child dies while holding the lock (as a SIGKILL at that instant would)
            with self._lock:
                iiter = self._index.value
                if iiter >= self._stop:
                    raise StopIteration
                if os.getpid() != PARENT:
                    os.kill(os.getpid(), signal.SIGKILL)
                self._index.value = iiter + 1
            return iiter
        parallel.range.__next__ = dying_next
        signal.alarm(5)
        try:
            try:
                with parallel.fork(2) as procid:
                    if procid == 0:
                        time.sleep(0.5)  # let the child take the lock first
                    for i in rng:
                        pass
                print('the call returned: finding NOT reproduced')
                return 1
            except Hung:
                print('KNOWN-FINDING reproduced: parent still blocked 5 s after the child was killed holding the counter lock')
                return 0
            except Exception as e:
                print('the call raised', type(e).__name__, e, ': finding NOT reproduced')
                return 1
        finally:
            signal.alarm(0)
            parallel.range.__next__ = orig_next


PARENT = os.getpid()
if __name__ == '__main__':
    code = main()
    sys.stdout.flush()
    os._exit(code)
