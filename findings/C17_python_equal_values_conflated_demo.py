'''C17 known finding, shown against the real code without the simulator.

The intern tables of types.Singleton (and types.DataClass) are keyed on the constructor arguments compared with
Python's ==.  0.0 and -0.0 are different values of ONE type (1/x differs, repr differs, nutils_hash differs) that
compare equal, so S(-0.0) is served the live S(0.0): the value is lost, two different values are one object, and
the nutils hash a caller sees for S(-0.0) depends on whether S(0.0) happens to be alive (garbage-collection history).

Run: PYTHONPATH=/repo/src /venv/bin/python findings/C17_python_equal_values_conflated_demo.py   (exit 1 = finding present)
'''
import gc, math, sys
from nutils import types


class S(types.Singleton):
    def __init__(self, a):
        self.a = a


pos = S(0.0)
h_pos = types.nutils_hash(pos)
neg = S(-0.0)
aliased = neg is pos
print('S(-0.0) is S(0.0) while the latter is alive:', aliased, '| sign of the stored argument:', math.copysign(1, neg.a))
h_neg_while_pos_alive = types.nutils_hash(neg)
del pos, neg
gc.collect()
neg = S(-0.0)
h_neg_alone = types.nutils_hash(neg)
print('hash of S(-0.0) built while S(0.0) was alive :', h_neg_while_pos_alive.hex()[:12])
print('hash of S(-0.0) built after S(0.0) was freed :', h_neg_alone.hex()[:12], '| sign:', math.copysign(1, neg.a))
# (ii) frozendict.__eq__ adopts the storage of an equal dictionary
alone = types.nutils_hash(types.frozendict({'k': 0.0}))
a, b = types.frozendict({'k': 0.0}), types.frozendict({'k': -0.0})
a == b
after = types.nutils_hash(a)
print('hash of frozendict({"k": 0.0}) alone            :', alone.hex()[:12])
print('hash of frozendict({"k": 0.0}) after == with -0.0:', after.hex()[:12])
bad = aliased or h_neg_while_pos_alive != h_neg_alone or alone != after
print('FINDING PRESENT' if bad else 'ok')
sys.exit(1 if bad else 0)
