#!/venv/bin/python
'''Stand-alone confirmation of the known finding C03-first-run-view-of-unfrozen-constant against the real code.

With cache_const_intermediates=True (the default) a computed constant intermediate is made read-only only at the END of the
first run.  A non-constant operation that returns a VIEW of it (InsertAxis with an argument dependent length: zero-stride
repeat; a basic index with an argument dependent position) therefore hands out, in the first call only, a writable view of
the cache.  Overwriting that result changes what every later call returns.
Exit code 0 = finding reproduced, 1 = not reproduced.'''
import sys, os
sys.path.insert(0, os.environ.get('VSIM_NUTILS_SRC', '/repo/src'))
import numpy
from nutils import evaluable as ev

v = ev.constant(numpy.array([1., 2., 3.]))
vv = ev.Cos(v) + v                                # computed (not folded), argument free: cached after the first run
cnt = ev.InRange(ev.Argument('cnt', (), int), ev.constant(5))
expr = ev.InsertAxis(vv, cnt)                     # shape (3, cnt): a zero-stride view of vv
f = ev.compile(expr)
fresh = ev.compile(expr, cache_const_intermediates=False)
first = f(dict(cnt=numpy.array(2)))
expected = fresh(dict(cnt=numpy.array(2))).copy()
print('first call ok:', numpy.array_equal(first, expected), '| writable:', first.flags.writeable, '| strides:', first.strides)
if first.flags.writeable:
    first[...] = -777                             # the user overwrites a result it was handed
second = f(dict(cnt=numpy.array(2)))
print('second call :', second.tolist())
print('expected    :', expected.tolist())
if numpy.array_equal(second, expected):
    print('finding NOT reproduced')
    sys.exit(1)
print('KNOWN-FINDING reproduced: a later call returns the overwritten values')
sys.exit(0)
