#!/venv/bin/python
'''Soak: run the registered checks for many batch seeds (quick tier by default) and report every exit code that is not 0.
Evidence and replay files go to a scratch directory next to this script's cwd (kept only for runs that did not exit 0).
Usage: tools_soak.py [--tier quick|thorough] [--seeds 1,2,3 | --seeds 1-20] [--props C03,C14,...]'''
import os, sys, subprocess, shutil, time, json

VERIF = os.path.dirname(os.path.abspath(__file__))
PY = '/venv/bin/python'


def main():
    args = sys.argv[1:]
    tier, seeds, props = 'quick', list(range(1, 11)), ['C03', 'C14', 'C16', 'C17', 'C18']
    while args:
        a = args.pop(0)
        if a == '--tier':
            tier = args.pop(0)
        elif a == '--seeds':
            v = args.pop(0)
            seeds = list(range(int(v.split('-')[0]), int(v.split('-')[1]) + 1)) if '-' in v else [int(x) for x in v.split(',')]
        elif a == '--props':
            props = args.pop(0).split(',')
    out = os.path.abspath('soak-results')
    os.makedirs(out, exist_ok=True)
    bad = 0
    for seed in seeds:
        for prop in props:
            scratch = f'/dev/shm/vsim-soak-{os.getpid()}'
            shutil.rmtree(scratch, ignore_errors=True)
            env = dict(os.environ, VERIF_SEED=str(seed), VSIM_EVIDENCE_DIR=f'{scratch}/ev', VSIM_REPLAY_DIR=f'{scratch}/rp', PYTHONDONTWRITEBYTECODE='1')
            t0 = time.time()
            p = subprocess.run([PY, os.path.join(VERIF, 'bin', 'vsim'), 'check', prop, '--tier', tier], capture_output=True, text=True, env=env)
            lines = p.stdout.splitlines()
            summary = lines[-1] if lines else p.stderr[-300:]
            print(f'seed={seed} {prop} exit={p.returncode} wall={time.time() - t0:.0f}s | {summary[:260]}', flush=True)
            if p.returncode != 0:
                bad += 1
                d = os.path.join(out, f'{prop}-{tier}-seed{seed}')
                shutil.rmtree(d, ignore_errors=True)
                os.makedirs(d)
                open(os.path.join(d, 'stdout.txt'), 'w').write(p.stdout)
                open(os.path.join(d, 'stderr.txt'), 'w').write(p.stderr[-20000:])
                if os.path.isdir(f'{scratch}/rp'):
                    shutil.copytree(f'{scratch}/rp', os.path.join(d, 'replays'))
                for l in lines:
                    if l.startswith(('VIOLATION', 'HARNESS-ERROR', '  class=')):
                        print('   ', l[:400], flush=True)
            shutil.rmtree(scratch, ignore_errors=True)
    print(f'soak done: {bad} runs did not exit 0')
    return 1 if bad else 0


if __name__ == '__main__':
    sys.exit(main())
