#!/venv/bin/python
'''Run the registered quick checks against the seeded changes kept under /verif/seeded/<id>/.

For each seeded change: apply patch.diff to /repo (git apply), run the demonstration (must fail) and the quick check of the
property it breaks (evidence and replay files redirected to scratch), undo the patch straight afterwards
(git checkout -- .), run the demonstration again (must pass), and record the outcome in meta.json ("checked" block).
Usage: tools_run_seeded.py [id ...] [--count N] [--seeds 0,1]
'''
import os, sys, json, subprocess, shutil, time

VERIF = os.path.dirname(os.path.abspath(__file__))
PY = '/venv/bin/python'


def sh(cmd, **kw):
    return subprocess.run(cmd, capture_output=True, text=True, **kw)


def repo_clean():
    return sh(['git', '-C', '/repo', 'status', '--porcelain', '--untracked-files=no']).stdout.strip() == ''


def main():
    args = sys.argv[1:]
    count = None
    seeds = ['0']
    ids = []
    while args:
        a = args.pop(0)
        if a == '--count':
            count = args.pop(0)
        elif a == '--seeds':
            seeds = args.pop(0).split(',')
        else:
            ids.append(a)
    ids = ids or sorted(d for d in os.listdir(os.path.join(VERIF, 'seeded')) if os.path.isdir(os.path.join(VERIF, 'seeded', d)))
    assert repo_clean(), '/repo has uncommitted changes to tracked files'
    summary = []
    for sid in ids:
        d = os.path.join(VERIF, 'seeded', sid)
        prop = sid.split('-')[0]
        patch = os.path.join(d, 'patch.diff')
        demo = os.path.join(d, 'demo.py')
        meta_path = os.path.join(d, 'meta.json')
        meta = json.load(open(meta_path)) if os.path.exists(meta_path) else {}
        scratch = f'/dev/shm/vsim-seeded-{os.getpid()}-{sid}'
        env = dict(os.environ, PYTHONPATH='/repo/src', PYTHONDONTWRITEBYTECODE='1')
        base = meta.get('base_commit')   # a change written against an older commit of /repo that a later fix: commit made moot: checked against that commit, in a scratch export
        srcenv = {}
        if base:
            broot = f'/dev/shm/vsim-seeded-base-{os.getpid()}'
            shutil.rmtree(broot, ignore_errors=True)
            os.makedirs(broot)
            subprocess.run(f'git -C /repo archive {base} src | tar -x -C {broot}', shell=True, check=True)
            env = dict(env, PYTHONPATH=f'{broot}/src')
            clean_demo = sh([PY, demo], env=env, timeout=1200).returncode
            ap = sh(['git', 'apply', '--directory', broot.lstrip('/'), '--unsafe-paths', patch], cwd='/') if False else sh(['patch', '-p1', '-d', broot, '-i', patch])
            srcenv = dict(VSIM_NUTILS_SRC=f'{broot}/src')
        else:
            clean_demo = sh([PY, demo], env=env, timeout=1200).returncode if os.path.exists(demo) else None
            ap = sh(['git', '-C', '/repo', 'apply', patch])
        if ap.returncode != 0:
            print(sid, 'PATCH DOES NOT APPLY', ap.stderr[:300])
            summary.append((sid, 'patch-does-not-apply'))
            continue
        runs = []
        try:
            patched_demo = sh([PY, demo], env=env, timeout=1200).returncode if os.path.exists(demo) else None
            for seed, prop in [(s_, p_) for s_ in seeds for p_ in meta.get('check_props', [prop])]:
                e = dict(os.environ, VERIF_SEED=seed, VSIM_EVIDENCE_DIR=os.path.join(scratch, 'evidence'), VSIM_REPLAY_DIR=os.path.join(scratch, 'replays'), PYTHONDONTWRITEBYTECODE='1', **srcenv)
                if count:
                    e['VSIM_COUNT'] = count
                t0 = time.time()
                p = sh([PY, os.path.join(VERIF, 'bin', 'vsim'), 'check', prop, '--tier', 'quick'], env=e)
                lines = p.stdout.splitlines()
                classes = [l.strip()[:300] for l in lines if l.strip().startswith('class=')]
                runs.append(dict(seed=int(seed), check=prop, exit=p.returncode, violation_lines=sum(l.startswith('VIOLATION') for l in lines), classes=classes[:5], summary=lines[-1][:300] if lines else '', wall_s=round(time.time() - t0, 1)))
        finally:
            sh(['git', '-C', '/repo', 'checkout', '--', '.'])
            shutil.rmtree(scratch, ignore_errors=True)
            if base:
                shutil.rmtree(broot, ignore_errors=True)
        assert repo_clean()
        prop = sid.split('-')[0]
        caught = all(any(r['exit'] == 1 and r['violation_lines'] for r in runs if r['seed'] == int(s_)) for s_ in seeds)
        some = any(r['exit'] == 1 and r['violation_lines'] for r in runs)
        meta['checked'] = dict(cmd=(f'(scratch export of /repo at {base} under /dev/shm, patch applied there, VSIM_NUTILS_SRC pointing at it) ' if base else '') + f'git -C /repo apply {patch}; {PY} /verif/bin/vsim check {prop} --tier quick (VERIF_SEED in {seeds}' + (f', VSIM_COUNT={count}' if count else '') + '); git -C /repo checkout -- .',
                               demo_exit_on_clean_tree=clean_demo, demo_exit_on_patched_tree=patched_demo, runs=runs,
                               caught='yes' if caught else 'some seeds' if some else 'no')
        json.dump(meta, open(meta_path, 'w'), indent=1)
        print(sid, 'caught=' + meta['checked']['caught'], 'demo clean/patched:', clean_demo, patched_demo, [r['classes'][:2] for r in runs])
        sys.stdout.flush()
        summary.append((sid, meta['checked']['caught']))
    print(json.dumps(summary))


if __name__ == '__main__':
    main()
