#!/bin/bash
# run the thorough tier of the given properties one after another (evidence and replays to scratch; non-zero exits are kept)
for p in "$@"; do
  S=/dev/shm/vsim-thorough-$$-$p
  VSIM_EVIDENCE_DIR=$S/ev VSIM_REPLAY_DIR=$S/rp /venv/bin/python bin/vsim check $p --tier thorough > thorough-$p.out 2>&1
  rc=$?
  echo "$p thorough exit=$rc | $(tail -1 thorough-$p.out | cut -c1-300)"
  grep -E "^VIOLATION|^HARNESS|^  class=" thorough-$p.out | cut -c1-500
  if [ $rc -ne 0 ]; then mkdir -p thorough-results/$p; cp -r $S/rp thorough-results/$p/ 2>/dev/null; fi
  python3 -c "
import json; e=json.load(open('$S/ev/$p.json')); c=e['coverage']; print('   evaluations', c['evaluations'], 'distinct', c['distinct_nontrivial'], 'runs/h', c['runs_per_hour'], 'steps', c['simulated_time_scheduler_steps'], 'faults', c['fault_kinds_fired'])" 2>/dev/null
  rm -rf $S
done
