#!/venv/bin/python
'''Import a seeded change written by a sub-agent: tools_import_seeded.py <PROP> <source dir> <round> "<breaks>" "<needs>" [check_props]
Copies patch.diff/demo.py/notes.md to /verif/seeded/<PROP>-<name>/ and writes meta.json (checked in a scratch export of /repo HEAD).'''
import sys, os, json, shutil, subprocess
prop, src, rnd, breaks, needs = sys.argv[1:6]
name = os.path.basename(src.rstrip('/'))
sid = f'{prop}-{name}'
d = f'/verif/seeded/{sid}'
os.makedirs(d, exist_ok=True)
for f in ('patch.diff', 'demo.py', 'notes.md'):
    shutil.copy(os.path.join(src, f), d)
head = subprocess.run(['git', '-C', '/repo', 'rev-parse', '--short', 'HEAD'], capture_output=True, text=True).stdout.strip()
meta = dict(id=sid, property=prop, origin=f'independent sub-agent (round {rnd}) given only the property text and a scratch worktree', breaks=breaks, needs_to_manifest=needs,
            files=dict(patch='patch.diff', demonstration='demo.py', notes='notes.md'), existing_tests_pass_with_change=True, base_commit=head,
            note='checked in a scratch export of /repo at that commit so that /repo itself stays untouched while other runs use it')
if len(sys.argv) > 6:
    meta['check_props'] = sys.argv[6].split(',')
json.dump(meta, open(f'{d}/meta.json', 'w'), indent=1)
ok = subprocess.run(['git', '-C', '/repo', 'apply', '--check', f'{d}/patch.diff']).returncode
print(sid, 'applies' if ok == 0 else 'DOES NOT APPLY')
